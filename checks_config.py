"""Per-property run configuration for ./check (budgets are case counts, never per-case deadlines)."""

COMMON_ASSUMPTIONS = [
    "sampling: a seeded finite sample of the input space is explored; absence of violations outside it is not established",
    "the Go toolchain, math library and pgregory.net/rapid v1.3.0 are trusted",
]


def U(run, q, t, once=False):
    """unit: q/t = (shards, checks, steps) or None"""
    d = dict(run=run, once=once)
    for name, spec in (('quick', q), ('thorough', t)):
        if spec:
            d[name] = dict(shards=spec[0], checks=spec[1], steps=spec[2] if len(spec) > 2 else 30,
                           timeout=600 if name == 'quick' else 5400)
    return d


def F(fuzz, seconds):
    return dict(fuzz=fuzz, thorough=dict(seconds=seconds))


CHECKS = {
    'C18': dict(
        level='exploration',
        units=[
            U('^TestC18_Exhaustive$', (1, 0), (1, 0), once=True),
            U('^TestC18_Values$', (2, 20000), (8, 400000)),
            U('^TestC18_Bytes$', (2, 20000), (8, 400000)),
            F('FuzzC18Bytes', 90),
        ],
        essential_labels=['exhaustive:uvarint64', 'exhaustive:flags', 'len-class-boundary', 'float-nonfinite-or-negative', 'continuation-on-last-byte'],
        exhaustive_note='all byte strings of length 0..2 (65 793) x 2 trailing variants for each of the 5 decoders, and all 256 flag bytes, are enumerated completely on every run (counters exhaustive_*)',
        assumptions=COMMON_ASSUMPTIONS + ["reference codecs in harness/refdec were written from the doc comments of encoding.go/flag.go and share no code with the repository"],
    ),
}
