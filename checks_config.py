"""Per-property run configuration for ./check (budgets are case counts, never per-case deadlines)."""

COMMON_ASSUMPTIONS = [
    "sampling: a seeded finite sample of the input space is explored; absence of violations outside it is not established",
    "the Go toolchain, math library and pgregory.net/rapid v1.3.0 are trusted",
]


def U(run, q, t, once=False):
    """unit: q/t = (shards, checks, steps) or None"""
    d = dict(run=run, once=once)
    for name, spec in (('quick', q), ('thorough', t)):
        if spec:
            d[name] = dict(shards=spec[0], checks=spec[1], steps=spec[2] if len(spec) > 2 else 30,
                           timeout=600 if name == 'quick' else 5400)
    return d


def F(fuzz, seconds):
    return dict(fuzz=fuzz, thorough=dict(seconds=seconds))


CHECKS = {
    'C01': dict(
        level='exploration',
        units=[U('^TestC01$', (8, 12000), (14, 150000)), U('^TestC01_LargeScale$', (4, 150), (2, 4000))],
        essential_labels=['mapping:log', 'mapping:linear', 'mapping:cubic', 'pos:dense', 'pos:sparse', 'pos:paginated', 'has-neg', 'has-zero', 'has-submin', 'has-edge-value', 'extreme-magnitude', 'q-on-integer-rank', 'interior-q-across-bins', 'custom-offset', 'large-scale', 'queries-interleaved-with-adds'],
        assumptions=COMMON_ASSUMPTIONS + ["floating-point slack 64*2^-52*(1+|ln v|+(|i|+|offset|)*ln gamma) is allowed on top of alpha (DESIGN §1.1)", "dense/paginated sketches draw values from an index window of at most 2^14 bins (memory)"],
    ),
    'C02': dict(
        level='exploration',
        units=[U('^TestC02$', (8, 4000), (16, 40000)), U('^TestC02_StructuredParts$', (3, 6000), (4, 150000))],
        essential_labels=['mixed-store-kinds', 'same-kind-fast-path', 'tree-depth>=2', 'has-zero', 'has-neg', 'recycled-part', 'empty-part', 'decode-merge-edge', 'structured-parts', 'receiver-encoded-before-merge'],
        assumptions=COMMON_ASSUMPTIONS + ["dyadic bounded weights make every float sum exact, so merged and single-sketch observations are compared bit for bit"],
    ),
    'C03': dict(
        level='exploration',
        units=[U('^TestC03$', (8, 20000), (16, 400000))],
        essential_labels=['kind:log', 'kind:linear', 'kind:cubic', 'built:alpha', 'built:gamma', 'offset:2^30', 'offset:int32-bound', 'offset:engineered-integer-boundary', 'offset:engineered-exact-hit', 'offset:small', 'offset:default', 'probe:bin-edge', 'probe:bin-edge-neighbourhood', 'probe:binade-edge', 'probe:range-end', 'top-bin-upper-bound', 'offset:engineered-edge-at-range-end'],
        assumptions=COMMON_ASSUMPTIONS + ["floating-point slack 64*2^-52*(1+|ln v|+(|i|+|offset|)*ln gamma) on accuracy and bin containment (DESIGN §1.1)", "the bin after the last indexable one is not asserted (its lower bound overflows for interpolated mappings)"],
    ),
    'C19': dict(
        level='exploration',
        units=[U('^TestC19$', (8, 15000), (16, 150000))],
        essential_labels=['kind:log', 'kind:linear', 'kind:cubic', 'non-default-offset', 'pair:cross-kind', 'pair:near-alpha', 'pair:offset', 'pair:offset-near-tolerance', 'pair:tolerance-boundary', 'sequence-of-reads'],
        assumptions=COMMON_ASSUMPTIONS + ["refdec reads kind/gamma/offset from the binary block independently of the repository's decoder"],
    ),
    'C20': dict(
        level='exploration',
        units=[U('^TestC20$', (8, 8000, 40), (16, 60000, 80)), U('^TestC20_LargeScale$', (2, 150), (4, 5000))],
        essential_labels=['add-after-query', 'merge', 'duplicate-heavy', 'q-on-integer-rank', 'large-scale', 'batch:below-min', 'q:nan', 'size:exact-power-of-two', 'merge:self'],
        assumptions=COMMON_ASSUMPTIONS + ["rho=q*(n-1) is accepted evaluated exactly or in binary64 (they differ only within half an ulp of an integer)", "Min/Max of an empty dataset are outside the statement and not exercised"],
    ),
    'C04': dict(
        level='exploration',
        units=[
            U('^TestC04_Dense$', (3, 500, 50), (5, 2500, 100)),
            U('^TestC04_Sparse$', (3, 500, 50), (5, 2500, 100)),
            U('^TestC04_Paginated$', (4, 500, 50), (4, 2500, 100)),
            U('^TestC04_LargeScale$', (3, 200), (2, 6000)),
            U('^TestC04_PaginatedScenarios$', (3, 8000), (4, 200000)),
            U('^TestC04_WideWeights$', (2, 8000), (3, 200000)),
            U('^TestC04_Decay$', (2, 6000), (3, 150000)), U('^TestC04_HandBuiltMessages$', (2, 3000), (2, 60000))],
        essential_labels=['kind:dense', 'kind:sparse', 'kind:paginated', 'event:array-shift', 'event:page-created', 'event:buffer-compacted', 'op:merge', 'op:encdec', 'op:proto', 'op:reweight', 'op:copy', 'op:clear', 'large-scale', 'shape:round-robin', 'paginated-method-mergewithproto', 'clear-refill-same-size', 'mutate-many:non-add', 'large-scale-merge-phase', 'first-read-after-mutation', 'paginated-scenario', 'wide-weights', 'weight>=2^53', 'weights-underflowed-to-zero', 'partial-underflow-lost-bins', 'decay:some-bins-vanished'],
        assumptions=COMMON_ASSUMPTIONS + ["weights are dyadic and bounded so that every float64 partial sum is exact (DESIGN §1.1); index spans are capped per store kind by memory"],
    ),
    'C05': dict(
        level='exploration',
        units=[
            U('^TestC05_Stores$', (8, 2500, 60), (12, 10000, 100)),
            U('^TestC05_Sketch$', (4, 3000), (3, 15000)),
            U('^TestC05_LargeScale$', (2, 150), (1, 6000)),
            U('^TestC05_WideWeights$', (3, 8000), (4, 200000)),
            U('^TestC05_Decay$', (3, 8000), (4, 200000))],
        essential_labels=['kind:collow', 'kind:colhigh', 'folded', 'op-after-fold', 'merge-same-kind', 'merge-wide-into-empty', 'add-beyond-edge-after-collapse', 'wide-weights', 'weight>=2^53', 'weights-underflowed-to-zero', 'partial-underflow-lost-bins', 'decay:some-bins-vanished', 'decay:collapsed-state-ended', 'decay:merge-same'],
        assumptions=COMMON_ASSUMPTIONS + ["fold(M,N) model: folding is history-independent (DESIGN §2 C05); dyadic weights"],
    ),
    'C06': dict(
        level='exploration',
        units=[U('^TestC06$', (8, 3000), (14, 25000)), U('^TestC06_ArbitraryWeights$', (2, 10000), (2, 100000)), U('^TestC06_FarIndexes$', (2, 1500), (2, 60000)), U('^TestC06_ObservedContent$', (2, 10000), (3, 300000)), U('^TestC06_ExactProducerLongCount$', (2, 4000), (2, 100000)), U('^TestC06_WideContiguous$', (2, 12), (4, 150))],
        essential_labels=['layout:1', 'layout:2', 'layout:3', 'omit-mapping', 'prefix', 'concatenation', 'non-empty-receiver', 'both-sides', 'block:zero', 'variant:exact', 'target:collow', 'target:colhigh', 'target:paginated', 'source:paginated', 'arbitrary-weights', 'weight-changed-by-transform', 'weight-vanishes', 'far-indexes', 'index-delta-beyond-int32', 'second-generation', 'encoding-after-weights-underflowed-to-zero', 'observed-content', 'merge:same-kind-other-limit', 'count-block:9th-byte-top-bit', 'contiguous-block>65535-bins'],
        assumptions=COMMON_ASSUMPTIONS + ["dyadic bounded weights survive the documented (w+1)-1 transform exactly; arbitrary weights are checked bit-for-bit against (w+1)-1 without being summed"],
    ),
    'C07': dict(
        level='exploration',
        units=[U('^TestC07_EncoderConforms$', (4, 6000), (6, 40000)), U('^TestC07_DecoderAcceptsGrammar$', (8, 3000), (9, 20000)), U('^TestC07_FarIndexes$', (2, 3000), (1, 100000)), U('^TestC07_PlainDecodesExactLongCount$', (2, 5000), (2, 100000)), U('^TestC07_PowerOfTwoIndexes$', (2, 4000), (2, 100000)), U('^TestC07_BalancedWeights$', (1, 4000), (2, 100000)), F('FuzzC07Grammar', 120)],
        essential_labels=['direction:A', 'direction:B', 'direction:C', 'layout:1', 'layout:2', 'layout:3', 'stride:negative', 'stride:zero', 'stride:large', 'repeated-index', 'N=0-block', 'repeated-mapping-block', 'mapping-between-bins', 'mapping-after-bins', 'exact-decoder', 'target:paginated', 'target:collow', 'multi-layout', 'producer:exact-variant', 'index-delta-beyond-int32', 'deltas-block-after-many-unit-bins', 'encoding-after-weights-underflowed-to-zero', 'count-block:9-bytes', 'count-block:9th-byte-top-bit', 'direction:power-of-two-indexes'],
        assumptions=COMMON_ASSUMPTIONS + ["harness/refdec is the reading of the format documentation the streams are generated from and compared with", "indexes in generated streams are indexes of the mapping (between those of its smallest and largest indexable values) and stay within a memory-bounded cluster"],
    ),
    'C08': dict(
        level='fault_enumeration',
        units=[U('^TestC08$', (12, 150), None), U('^TestC08_Thorough$', None, (14, 1500)), U('^TestC08_LongVarfloats$', (3, 400), (2, 20000)), U('^TestC08_FarIndexes$', (2, 600), (2, 30000)), U('^TestC08_ReceiverWithoutMapping$', (1, 4000), (2, 100000)), F('FuzzC08', 120)],
        essential_labels=['cut-inside-bin-block', 'cut:uvarint/n', 'cut:varint/delta', 'cut:varfloat/count', 'cut-inside:mapping', 'fault:undefined-flag', 'fault:mapping-mismatch', 'fault:mapping-mismatch-offset-only', 'fault:mapping-mismatch-repeated-on-same-receiver', 'fault:mapping-missing', 'varfloat>=8-bytes', 'cut:8-of-9-varfloat-bytes', 'layout:1', 'layout:2', 'layout:3', 'producer:exact-variant', 'far-indexes', 'integer-field>=5-bytes'],
        assumptions=COMMON_ASSUMPTIONS + ["encodings are sampled; for each sampled encoding every cut point is enumerated (and every undefined flag at every block boundary in the thorough tier)", "arbitrary garbage is not thrown at the sketch decoders: the format lets a well-formed block describe 2^63 bins, which the property does not promise to handle gracefully"],
    ),
    'C09': dict(
        level='exploration',
        units=[U('^TestC09_History$', (6, 5000), (8, 40000)), U('^TestC09_ArbitraryWeights$', (3, 8000), (4, 50000)), U('^TestC09_HandBuilt$', (3, 8000), (4, 50000)), U('^TestC09_ObservedContent$', (2, 10000), (3, 300000)), U('^TestC09_PaginatedScenarios$', (2, 6000), (3, 150000))],
        essential_labels=['mode:A', 'mode:B', 'mode:C', 'shape:sparse', 'shape:contiguous', 'shape:both', 'nil-store-message', 'negative-offset', 'custom-offset', 'contiguous-run>=63', 'target:collow', 'target:paginated', 'source:paginated', 'source:sparse', 'cleared-then-refilled', 'mode:observed-content', 'merge:same-kind-other-limit', 'mode:paginated-scenario'],
        assumptions=COMMON_ASSUMPTIONS + ["google.golang.org/protobuf Marshal/Unmarshal/Equal are trusted"],
    ),
    'C10': dict(
        level='exploration',
        units=[U('^TestC10$', (12, 1000, 50), (14, 8000, 80)), U('^TestC10_LongChains$', (3, 60), (2, 1500)), U('^TestC10_AbsorbedWeights$', (1, 4000), (2, 100000))],
        essential_labels=['op:add', 'op:bad', 'op:badmerge', 'op:merge', 'op:decmerge', 'op:copy', 'op:clear', 'op:reweight', 'op:encdec', 'op:changemapping', 'op:fromdata', 'long-chain:absorb-merge', 'long-chain:random-merge', 'long-chain:absorb-add', 'long-chain:decode-merge', 'long-chain:copies', 'rejected-add', 'zero-weight-add', 'non-dyadic-phase', 'store:dense', 'store:sparse', 'store:paginated', 'long-chain:chain-merge'],
        assumptions=COMMON_ASSUMPTIONS + ["sum bound (8+2k)*2^-52*sum|v*w| plus a few subnormal ulps, k = number of reweight/rescale/decode/merge steps (DESIGN §2 C10)", "after a ChangeMapping nothing is compared with == (bin weights are no longer dyadic)", "values within [1e-50,1e50] so that unit changes keep them far inside every mapping's range"],
    ),
    'C11': dict(
        level='exploration',
        units=[U('^TestC11$', (8, 12000), (16, 100000)), U('^TestC11_HugeTotal$', (2, 8000), (4, 150000))],
        essential_labels=['W<1', 'one-sided', 'reached-by-reweight', 'fractional-weights', 'mode:single-light', 'mode:several-light', 'mode:huge-total', 'W>=2^53', 'pos:dense', 'pos:sparse', 'pos:paginated', 'dust-below-half-ulp-of-total', 'recycled-with-living-copy'],
        assumptions=COMMON_ASSUMPTIONS + ["'within one unit of weight' is taken as distance(rank, cumulative-weight interval) <= 1 (DESIGN §2 C11)"],
    ),
    'C12': dict(
        level='exploration',
        units=[U('^TestC12$', (8, 6000), (16, 50000)), U('^TestC12_MonotoneArbitraryWeights$', (2, 6000), (3, 150000))],
        essential_labels=['shape:all-negative', 'shape:all-zero', 'shape:zero+negative', 'shape:single-value', 'shape:sub-minimum', 'shape:mixed', 'after-merge', 'after-clear', 'after-decode', 'same-signed-sum', 'pos:collow', 'pos:colhigh', 'pos:paginated', 'weights-underflowed-to-zero', 'partial-underflow-lost-bins'],
        assumptions=COMMON_ASSUMPTIONS + ["accuracy of min/max/sum w.r.t. raw values is asserted only when no collapsing store took part in the history"],
    ),
    'C13': dict(
        level='exploration',
        units=[U('^TestC13$', (8, 12000), (16, 100000)), U('^TestC13_DegenerateRange$', (2, 5000), (2, 100000))],
        essential_labels=['refused-add', 'refused-quantile', 'refused-merge', 'refused-reweight', 'refused-reweight-store-level', 'refused-constructor', 'accept-at-boundary', 'state:empty', 'state:non-empty', 'variant:exact', 'variant:plain', 'mismatch:kind', 'mismatch:alpha', 'mismatch:offset', 'mismatch:base', 'near-equal-mapping-decoded', 'degenerate-range', 'range:empty', 'refused-decode-of-two-mappings'],
        assumptions=COMMON_ASSUMPTIONS + ["NaN weights/factors/constructor parameters are outside the property"],
    ),
    'C14': dict(
        level='exploration',
        units=[U('^TestC14_Sketch$', (6, 400, 40), (8, 3000, 80)), U('^TestC14_Stores$', (6, 400, 40), (8, 3000, 80)), U('^TestC14_ReadOrNot$', (4, 8000), (8, 150000)), U('^TestC14_Decay$', (2, 8000), (3, 200000))],
        essential_labels=['level:sketch', 'level:store', 'level:twin', 'read:copy', 'read:merge-argument', 'read:encode', 'read:toproto', 'read:encodeproto', 'read:changemapping', 'read:store-reads', 'read:bins', 'copy-then-mutations-on-both-sides', 'mutation-after-read-on-buffered-paginated', 'variant:exact', 'decay:step-without-read', 'decay:some-bins-vanished'],
        assumptions=COMMON_ASSUMPTIONS + ["that a protobuf message is a snapshot of its source is asserted at store level (the store machines mutate the source between ToProto and MergeWithProto), not separately at sketch level"],
    ),
    'C15': dict(
        level='exploration',
        units=[U('^TestC15_Stores$', (7, 2500), (8, 25000)), U('^TestC15_Sketch$', (7, 2000), (8, 20000)), U('^TestC15_ManyPages$', (2, 400), (3, 8000))],
        essential_labels=['level:store', 'level:sketch', 'kind:dense', 'kind:sparse', 'kind:paginated', 'kind:collow', 'kind:colhigh', 'collapsed-before-clear', 'pages-before-clear', 'h2-shifted-range', 'repeated-cycles', 'cleared-sketch-as-decode-target', 'variant:exact', 'preclear:weights-underflow-to-zero', 'preclear:infinite-weight', 'pages>256'],
        assumptions=COMMON_ASSUMPTIONS + ["encoded bytes of cleared vs fresh objects are not compared (the paginated store legitimately keeps its compaction threshold); decoded content is"],
    ),
    'C16': dict(
        level='exploration',
        units=[U('^TestC16_Stores$', (7, 2500), (8, 25000)), U('^TestC16_Sketch$', (7, 2000), (8, 20000)), U('^TestC16_ArbitraryFactor$', (2, 15000), (4, 300000)), U('^TestC16_OverflowingTotal$', (1, 3000), (2, 100000))],
        essential_labels=['level:store', 'level:sketch', 'kind:dense', 'kind:sparse', 'kind:paginated', 'kind:collow', 'kind:colhigh', 'w<1', 'w>1', 'w=1', 'paginated-buffer-and-pages-at-reweight', 'collapsed-at-reweight', 'both-sides', 'zero-bucket', 'variant:exact', 'arbitrary-factor', 'factor-in-(1,1.2)', 'overflowing-total'],
        assumptions=COMMON_ASSUMPTIONS + ["bit-for-bit comparisons use dyadic factors only (w in {2^k, 3, 1.5, 0.75, 5}) so that scaled weights stay exact; arbitrary factors and weights are judged bin by bin within 4 ulps per contribution/factor (TestC16_ArbitraryFactor)"],
    ),
    'C17': dict(
        level='exploration',
        units=[U('^TestC17$', (8, 8000), (16, 60000)), U('^TestC17_ExtremeFanout$', (3, 10), (8, 300))],
        essential_labels=['relation:equal', 'relation:finer', 'relation:coarser', 'relation:aligned', 'identity', 'scale:1', 'scale:other', 'negative-side', 'variant:exact', 'shape:single-bin', 'shape:two-far-bins', 'source:paginated', 'target:dense', 'target:sparse', 'relation:extreme-fanout', 'fanout>2^20', 'source-offset:large', 'target-offset:large', 'magnitude:extreme', 'scale:bound-ratio'],
        assumptions=COMMON_ASSUMPTIONS + ["weight tolerance 64*2^-52/min(alpha1,alpha2)*W (each proportion is a ratio of differences of nearly equal bounds)", "values in [1e-4,1e4] and scale in [1e-3,1e3]: well inside both mappings' ranges, as the property requires"],
    ),
    'C18': dict(
        level='exploration',
        units=[
            U('^TestC18_Exhaustive$', (1, 0), (1, 0), once=True),
            U('^TestC18_Values$', (6, 60000), (8, 400000)),
            U('^TestC18_Bytes$', (6, 60000), (8, 400000)),
            F('FuzzC18Bytes', 90),
        ],
        essential_labels=['exhaustive:uvarint64', 'exhaustive:flags', 'len-class-boundary', 'float-nonfinite-or-negative', 'continuation-on-last-byte', 'dst:short-nonempty-small-capacity', 'dst:non-empty'],
        exhaustive_note='all byte strings of length 0..2 (65 793) x 2 trailing variants for each of the 5 decoders, and all 256 flag bytes, are enumerated completely on every run (counters exhaustive_*)',
        assumptions=COMMON_ASSUMPTIONS + ["reference codecs in harness/refdec were written from the doc comments of encoding.go/flag.go and share no code with the repository"],
    ),
}
