"""Free-text parts of MANIFEST.json per property."""
NOT_APPLICABLE = {}

TEXTS = {
    'C18': dict(
        text="Generated-input search: seeded rapid generators of uint64/int64/float64 values (bit-length classes, 2^k+-d, non-finite, subnormal, +1-rounding) and random byte strings, checked against an independent reference codec written from the format documentation (byte-for-byte encodings, sizes, exact consumption with trailing bytes, EOF on every strict prefix without consuming), plus complete enumeration of all byte strings of length <= 2 per decoder and all 256 flags; thorough adds a coverage-guided native fuzz campaign. Exploration is the right level: the property is a for-all over bit patterns with an executable differential oracle.",
        design_ref="DESIGN.md §2 C18",
        note="Trusted base: harness/refdec (independent re-implementation from the doc comments), Go runtime, rapid. Sampling except for the enumerated sub-space; a defect confined to one specific 64-bit pattern outside the boundary classes could be missed.",
        technique="property-based testing (rapid) with differential oracle against an independent reference codec; exhaustive small-input enumeration; native fuzzing in thorough",
    ),
}
