"""Free-text parts of MANIFEST.json per property."""
NOT_APPLICABLE = {}

TEXTS = {
    'C01': dict(
        text="Generated-input search against an exact reference model: values are built from the mapping under test (bin edges +-4 ulps, range ends, powers of two, sub-minimum magnitudes, both signs, duplicates) over all 3 mapping kinds x alpha in [1e-9,0.99] (one in four rebuilt from base and offset, incl. offsets engineered to put a bin on an integer boundary of the inverse index function, that bin then being probed on purpose) x 3x3 non-collapsing store kinds, added one at a time with queries interleaved; every answer is compared with the exact order statistics at floor/ceil of the exact rational rank q*(n-1) under the configured alpha plus a derived floating-point slack; q=0/q=1 must be bit-identical to the extreme bin's representative. Exploration is the right level: a for-all over inputs/configurations with an executable oracle.",
        design_ref="DESIGN.md §2 C01, §1.1",
        note="Trusted: the mapping's Index() for locating bins in the non-triviality rule only (accuracy is judged on values), big.Rat arithmetic. Index window of dense/paginated sketches capped at 2^14 bins by memory. Sampling: a violation confined to one specific (alpha, bin) away from edges could be missed.",
        technique="property-based testing (rapid) against an exact sorted-multiset model with exact rational ranks",
    ),
    'C02': dict(
        text="Generated-input search with two independent oracles: an exact index->weight model of the whole input and a metamorphic twin (one sketch fed everything). Inputs are partitioned over 1..6 sketches with independently drawn store kinds (incl. empty and recycled parts) and merged along generated trees, each edge by MergeWith or Encode+DecodeAndMergeWith; root, twin and model must agree bit for bit on bins, zero weight, count, extremes, store rank lookups and probe quantiles; each merge must leave its argument unchanged. A second generator merges parts in structured paginated states (pages at positions moving away step by step, unit clusters around the compaction thresholds) in a chain.",
        design_ref="DESIGN.md §2 C02",
        note="Trusted: model.Map; exactness budget (dyadic weights). Non-collapsing stores only (as the property states).",
        technique="property-based testing (rapid): metamorphic twin + exact model over generated partitions and merge trees",
    ),
    'C03': dict(
        text="Generated-input search with a validity oracle per value: for mappings of all three kinds built from alpha in [1e-9,0.99] or rebuilt from (gamma, arbitrary offset up to +-2^30), ~70 values per mapping concentrated where rounding matters (bin edges +-4 ulps incl. the 10 lowest/highest indexes, edge neighbourhoods at every scale 10^-2.5..10^-16, binade edges, both range ends, log-uniform fill; offsets incl. ones engineered so that (i-offset)/multiplier is an integer or its float neighbour) are checked for alpha-accuracy of Value(Index(v)), int32 range, containment between consecutive lower bounds and monotonicity over adjacent-float / few-ulp / adjacent-bin / far pairs; the reported accuracy must equal the configured one. Found and drove the repair of finding F7.",
        design_ref="DESIGN.md §2 C03, §1.1",
        note="Trusted: math.Log/Exp of the Go runtime within the derived slack. Sampling concentrated on the measure-zero set of edges; a violation at one specific interior value of one specific mapping would be found only by luck.",
        technique="property-based testing (rapid) with analytic validity predicates (accuracy, containment, monotonicity) on edge-focused generated floats",
    ),
    'C04': dict(
        text="Model-based stateful property testing: one rapid state machine per non-collapsing store kind generates histories over Add/AddWithCount/AddBin/bursts/MergeWith(any of 5 kinds)/Copy/Clear/Reweight/Encode+Decode/ToProto+MergeWithProto and compares, after every step, the complete public observation (emptiness, total, min/max index, ForEach, Bins(), KeyAtRank at every cumulative boundary +- half a quantum) bit-for-bit with the mathematical index->weight map; dyadic bounded weights make every float sum exact so no tolerance is needed. The layout hook counts structural events (array shift/grow, page creation, left extension, compaction) so that evidence shows they were exercised. Further generators: no-read windows (several mutations incl. clear/merge/reweight between observations, clear-and-refill to the same size), large-scale workloads (tens of thousands of additions, then a series of merges with a drifting hot region), structured paginated states combined by merge/decode/protobuf, and wide-range weights (units next to 2^53..2^200) judged per bin against 400-bit arithmetic. A second machine (decay machine, DESIGN 7.13) models partial underflow exactly: weights on levels 2^(600k) so that a reweighting makes some bins exactly 0 while others survive, with the history going on afterwards. Hand-built protobuf messages (zeros, long runs, both forms) are merged into every kind.",
        design_ref="DESIGN.md §2 C04, §1.1",
        note="Trusted: model.Map (a Go map with sorted iteration), the exactness budget. Index spans capped per store kind by memory (dense 2^14..2^18, paginated 2^18, sparse 2^30). Sampling of histories up to ~120 steps.",
        technique="stateful model-based property testing (rapid state machine) against an exact map model",
    ),
    'C05': dict(
        text="Model-based stateful property testing on both collapsing stores with N from 1 to 2048 (histories include weights reweighted until they underflow to exactly 0, after which the store must behave as an empty one: repaired finding F8): after every step the observation must equal fold(M,N) of the exact unfolded content, with bins <= N, span <= N, total conserved and (hook) allocated length <= N; merge arguments of all kinds and independent bin limits, including wide same-kind arguments into empty/cleared receivers (the shape of repaired finding F1). A sketch-level generator checks alpha-accuracy of every quantile whose floor/ceil order statistics lie in retained bins; large-scale workloads and wide-range weights (per-bin comparison against 400-bit arithmetic) as in C04. The decay machine (DESIGN 7.13) continues histories after a reweighting emptied bins at either end of the range (repaired findings F18, F21), with a mirror model of the collapsed state and every observer compared after every step.",
        design_ref="DESIGN.md §2 C05",
        note="Trusted: the fold model (history independence of folding is itself exercised: any dependence shows up as a mismatch). Sketch-level clause asserts accuracy only when both candidate order statistics are retained.",
        technique="stateful model-based property testing (rapid state machine) against fold(exact map, N); generated sketch-level accuracy cases",
    ),
    'C19': dict(
        text="Generated-input round-trip and metamorphic search: every generated mapping is pushed through binary Encode/Decode, protobuf Marshal/Unmarshal/FromProto and the streaming IndexMappingBuilder; results must Equal the original in both directions, re-serialize to identical bytes and agree bitwise on Index/Value/LowerBound/accuracy/range at probe values and indexes; an independent parser must read the same kind/gamma/offset from the block; equality is checked for reflexivity, symmetry (also for offsets around the tolerance of Equals, 0 against tiny non-zero ones) and discrimination (other kind, accuracy >= 0.1% apart, clearly different offsets); several mappings read in a row (binary, protobuf, sketch decoder; same base/offset across kinds) must each come back as written.",
        design_ref="DESIGN.md §2 C19",
        note="Trusted: google.golang.org/protobuf, harness/refdec. Equality discrimination is asserted only for pairs at least 0.1% apart in accuracy (as the property states).",
        technique="property-based round-trip and metamorphic testing (rapid) with an independent wire-format reader",
    ),
    'C20': dict(
        text="Model-based stateful property testing of dataset.Dataset against a sorted-slice model: additions interleaved with lower/upper quantile, min, max, sum, count queries and merges; exact rational ranks; a permuted twin must answer identically. A large-scale generator (1000..65537 values, queries interleaved with batches below the minimum / above the maximum / equal to it, merges) covers sizes short histories never reach; quantiles include NaN and -0 (repaired finding F11).",
        design_ref="DESIGN.md §2 C20",
        note="Trusted: sort.Float64s for the model, Shewchuk exact summation for the reference sum. Both readings of floor(q*(n-1)) (exact / binary64) accepted.",
        technique="stateful model-based property testing (rapid state machine) against a sorted multiset",
    ),
    'C06': dict(
        text="Generated-input round-trip and metamorphic search: sources built by generated histories over all store kinds/mappings/both variants are encoded (omit on/off, arbitrary buffer prefix with/without spare capacity) and decoded into targets of all five kinds; decoded content must equal fold_target(source content) exactly, decoding into a non-empty receiver must equal merging into a copy, a concatenation must decode to the merge, the prefix/backing array must be untouched and the source unchanged. A second generator checks each arbitrary float64 weight against the documented (w+1)-1 transform bit for bit; further generators: sketches whose bins lie more than 2^31 indexes apart, second-generation decoding (decode, encode, decode), encodings after every weight underflowed to exactly 0, and stores built with arbitrary weights/factors and merges between collapsing stores of different limits whose encoding must carry (w+1)-1 of exactly what their own iteration reports.",
        design_ref="DESIGN.md §2 C06",
        note="Trusted: exact model + fold model; refdec only for labelling which wire layouts occurred.",
        technique="property-based round-trip / metamorphic testing (rapid) against an exact model",
    ),
    'C07': dict(
        text="Differential testing against an independent implementation of the wire format written from its documentation (harness/refdec): (A) every produced encoding must parse completely with documented flags only and yield exactly the sketch's content and statistics; (B) streams generated from the documented grammar (any block order, all three layouts, negative/zero/large strides, repeated indexes and blocks, N=0 blocks, statistics blocks, long runs of scattered unit-weight bins followed by index-delta blocks) must decode into all five store kinds to the content the documentation assigns; (C) the plain decoder must accept exact-summary encodings. Thorough adds a coverage-guided fuzz campaign over direction B. Re-detects repaired finding F2.",
        design_ref="DESIGN.md §2 C07",
        note="Trusted: refdec as the reading of the documentation (a symmetric encoder+decoder deviation from the documentation is caught because refdec shares no code with the repository).",
        technique="differential property-based testing (rapid + native fuzzing) against an independent reference codec; grammar-based stream generation",
    ),
    'C08': dict(
        text="Fault enumeration: for each sampled valid encoding (all producer store kinds hence layouts, 3 mappings, both variants, mapping embedded/omitted) EVERY truncation point, undefined flags at EVERY block boundary (8 sampled per boundary in quick, all in thorough), mapping mismatches (other kind, other accuracy, same base with another index offset; the same mismatching stream also three times on one persistent receiver) and the missing-mapping case are tried against 5 store kinds x 3 decoding APIs x mapping supplied/nil under recover; strictly-inside cuts and faults must return an error, boundary cuts must succeed and hold exactly the complete blocks' content as read by the independent parser; no panic. Re-detects repaired finding F3.",
        design_ref="DESIGN.md §2 C08",
        note="Trusted: refdec block boundaries/field offsets. Encodings are sampled, faults per encoding are complete. Garbage input outside the stated fault classes is deliberately not asserted.",
        technique="fault enumeration over generated encodings (every cut point, every undefined flag per boundary) with an independent parser as oracle; native fuzzing in thorough",
    ),
    'C09': dict(
        text="Generated-input round-trip search over the protobuf forms: history-built sketches (dyadic weights), one-arbitrary-weight-per-index sketches (bit-exactness) and hand-built messages mixing binCounts and contiguousBinCounts are marshalled, unmarshalled and rebuilt with every store kind; rebuilt content must equal fold_target(source content) with identical weight bits; the streaming EncodeProto bytes must unmarshal to a message proto.Equal to ToProto() and rebuild identically; MergeWithProto into empty and non-empty stores adds up. A further generator builds stores with arbitrary weights/factors and merges between collapsing stores of different limits: the message and the streamed bytes must carry, bit for bit, what the store's own iteration reports.",
        design_ref="DESIGN.md §2 C09",
        note="Trusted: google.golang.org/protobuf; exact model.",
        technique="property-based round-trip testing (rapid) with exact model and proto.Equal differential between streaming and in-memory writers",
    ),
    'C10': dict(
        text="Model-based stateful property testing of the exact-summary variant with a plain twin: generated histories over adds (incl. weight 0 and rejected values), merges (incl. refused ones, with a mismatching mapping), decode-merges, copies, clears, reweights, encode/decode and up to three ChangeMapping unit changes; after every step count, emptiness, min and max must equal the exact statistics of the absorbed (value, weight) list bit for bit, the sum must be within a derived few-ulp bound of the arbitrary-precision reference, every quantile must lie in [min,max], and while the state is dyadic every quantile must equal clamp(plain twin's answer, min, max) exactly. Long chains (thousands of additions, merges into fresh sketches, copies) hold the exact sum to a fixed 4 ulps; an underflow probe checks that a sketch none of whose bins holds anything is empty for the statistics too (F17, F22); merges between totals 2^53 and more apart are judged on extremes and clamping only.",
        design_ref="DESIGN.md §2 C10, §1.1",
        note="Trusted: big.Float reference sum; plain twin for un-clamped answers. Compensated vs naive summation cannot be told apart within the bound except on cancellation-heavy inputs (weak spot, DESIGN §5).",
        technique="stateful model-based property testing (rapid state machine) with an exact statistics model and a differential plain twin",
    ),
    'C11': dict(
        text="Generated-input search against an exact weighted reference: (value, dyadic weight) multisets with total weight from 2^-10 up (40% below 1, by light adds or by scaling down), every store/mapping kind; each answer must be within alpha of an absorbed value whose exact cumulative-weight interval lies within one unit of the exact rank q*(W-1), inside [min,max] and never of the sign of an empty side; a second generator reaches totals of 2^52..2^90 by reweighting and checks the clauses that remain decidable there (within alpha of an absorbed value, inside [min,max], never from an empty side). Re-detects repaired findings F4 and F9.",
        design_ref="DESIGN.md §2 C11",
        note="Trusted: exact rational rank (big.Rat), sorted entry list. The 'one unit' window is what the rank arithmetic can guarantee; nothing tighter is asserted.",
        technique="property-based testing (rapid) against an exact cumulative-weight model",
    ),
    'C12': dict(
        text="Generated-input search against an exact model for histories (adds, merges, decode-merges, copies, clears, encode/decode) with generator-forced data shapes (all-negative, all-zero, zero+negative, single value, sub-minimum only, mixed) on all five store kinds: count/zero count/emptiness exact, min/max equal to the extreme model bin's representative and alpha-close to the true extremes, monotone quantiles inside [min,max], batch == singles, invalid batch refused, alpha-accurate sum for same-signed data, iteration yields exactly the model's positive-weight entries and stops after exactly k callbacks for every k. Non-dyadic weights in shuffled order are judged on what must hold whatever the rounding: ordered answers for quantiles that are adjacent floats around every cumulative weight, batch == single, answers inside [min,max]; after a partial underflow the extremes and emptiness speak of the bins iteration still yields (F18).",
        design_ref="DESIGN.md §2 C12",
        note="Trusted: skModel (per-side maps + value list), fold model for collapsing stores. Accuracy w.r.t. raw values only asserted when no collapsing store took part.",
        technique="property-based testing (rapid) with shape-forcing generators against an exact model and coherence predicates",
    ),
    'C13': dict(
        text="Generated-input search over invalid and boundary inputs: a sketch in a generated reachable state receives one call from the documented-invalid and boundary classes (adds, quantiles, merges with mappings that differ in kind, accuracy or only in index offset, non-positive reweights at sketch and store level, constructors, NewBin, summary statistics constructors); the documented error (or nil for valid input) is required and the full observation before and after a refusal must be identical; one time in four the sketch first decode-merges a mapping that is Equal without being bit-identical, after which the bounds of its current mapping decide. A further generator uses mappings whose indexable range is empty or degenerate (accuracy below 2.3e-10, huge index offsets), and the constructor oracle requires a usable object or an error, never neither. Re-detects repaired findings F5, F12, F13, F14.",
        design_ref="DESIGN.md §2 C13",
        note="Trusted: obs.Sketch observer.",
        technique="property-based testing (rapid) with a contract-derived expected outcome and before/after observation equality",
    ),
    'C14': dict(
        text="Model-based stateful property testing over a population of 1-4 live objects (sketches of one variant with per-object store kinds, or stores of the five kinds), each with its own exact model: mutations hit one object, read-only operations (all observers, early-stopped iteration, ToProto, EncodeProto, Encode, Copy, being a merge argument, being a ChangeMapping receiver, store-level Bins/KeyAtRank/ToProto/Encode) hit one object; after every action every object must equal its model and every non-target object must have exactly its previous observation, which exposes impure reads and aliasing between copies. A twin generator applies the same mutations to two sketches, reads one of them at generated points with every kind of read-only operation and never looks at the other before the end: they must then answer identically. The decay machine run with a look at the store after one step in three only checks that nothing a read leaves behind (a cache, a sorted buffer) survives later mutations wrongly.",
        design_ref="DESIGN.md §2 C14",
        note="Trusted: per-object models; layout hook only for the non-triviality label (read on a paginated store holding buffered entries).",
        technique="stateful model-based property testing (rapid state machine) over a multi-object population with before/after observation equality",
    ),
    'C15': dict(
        text="Stateful twin testing: a store (five kinds) or sketch (both variants) is driven through a structure-leaving history, cleared, and then driven in lock-step with a freshly constructed twin through a second history whose indexes/values are placed relative to the first one's (same range, +-1, +-32, +-N, far away), with repeated clear/reuse cycles, decode-merges into the cleared object and, before a Clear, weights that underflowed to zero or overflowed; observations must be identical after every step and equal the model of the second history alone.",
        design_ref="DESIGN.md §2 C15",
        note="Trusted: model of H2; twin built by the public constructors. Bytes of encodings are not compared, decoded content is.",
        technique="stateful property testing (rapid) with a fresh-object twin and an exact model",
    ),
    'C16': dict(
        text="Metamorphic twin testing: after a generated history, Reweight(w) must leave exactly the observation of a fresh object that replayed the same history with every weight multiplied by w (unit adds thereby take the weighted path; paginated stores are driven to hold both buffered and paged indexes; collapsing stores past their first fold); both must equal w * model; Reweight(1) must be an observable no-op; exact variant: count scaled exactly, min/max unchanged, sum within the derived bound. A second generator uses arbitrary (non-dyadic) factors and weights, one contribution per bin, judged bin by bin within a few ulps.",
        design_ref="DESIGN.md §2 C16",
        note="Trusted: exactness budget for scaled weights (dyadic factors); model scaling.",
        technique="metamorphic property testing (rapid): replay-with-scaled-weights twin plus exact model",
    ),
    'C17': dict(
        text="Generated-input search with validity predicates derived from the conversion's specification: for ordered mapping pairs (3x3 kinds; coarser, finer, equal, bin-aligned) and scales in [1e-3,1e3], the result must carry the requested mapping, leave the source unchanged, keep zero weight exactly and total weight within a derived bound, hold no negative bin (observed through forms that show non-positive bins), place weight only in target bins overlapping scaled source bins (isolated source bins hand over exactly their weight), answer every quantile from a target bin overlapping the scaled range of a source bin within one unit of rank, be an exact independent copy for the identity conversion, and rescale exact statistics; a second generator converts a very coarse mapping to one 2e5..4e6 times finer (one source bin over millions of target bins); source and target mappings are also rebuilt with index offsets up to +-1.5e9. Re-detects repaired findings F6 and F10.",
        design_ref="DESIGN.md §2 C17",
        note="Trusted: LowerBound of both mappings for the overlap predicates (C03 checks them). Values kept well inside both ranges as the property requires.",
        technique="property-based testing (rapid) with conservation / locality / rank-window validity predicates",
    ),
    'C18': dict(
        text="Generated-input search: seeded rapid generators of uint64/int64/float64 values (bit-length classes, 2^k+-d, non-finite, subnormal, +1-rounding) and random byte strings, checked against an independent reference codec written from the format documentation (byte-for-byte encodings, sizes, exact consumption with trailing bytes, EOF on every strict prefix without consuming), plus complete enumeration of all byte strings of length <= 2 per decoder and all 256 flags; encoders run on destination slices in drawn states (empty, or 1..12 bytes with 0..9 bytes of spare capacity) whose content must survive; thorough adds a coverage-guided native fuzz campaign. Exploration is the right level: the property is a for-all over bit patterns with an executable differential oracle.",
        design_ref="DESIGN.md §2 C18",
        note="Trusted base: harness/refdec (independent re-implementation from the doc comments), Go runtime, rapid. Sampling except for the enumerated sub-space; a defect confined to one specific 64-bit pattern outside the boundary classes could be missed.",
        technique="property-based testing (rapid) with differential oracle against an independent reference codec; exhaustive small-input enumeration; native fuzzing in thorough",
    ),
}
