module verifharness

go 1.23

require (
	github.com/DataDog/sketches-go v0.0.0
	google.golang.org/protobuf v1.32.0
	pgregory.net/rapid v1.3.0
)

replace github.com/DataDog/sketches-go => /repo
