// Package refdec is an independent implementation of the DDSketch binary wire
// format, written from the documentation comments of
// ddsketch/encoding/flag.go and ddsketch/encoding/encoding.go only. It shares
// no code with the repository's encoding package (it does not even import it).
//
// It provides reference primitive codecs (uvarint64, zig-zag varint64,
// float64LE, varfloat64), a parser that splits a stream into flagged blocks
// (with the byte offset of every primitive field, used to classify cut points)
// and recovers the content the documentation assigns to the stream, and a
// builder that writes well-formed streams from the documented grammar.
package refdec

import (
	"errors"
	"fmt"
	"math"
	"math/bits"
)

var ErrEOF = errors.New("refdec: unexpected end of input")

// ---------------------------------------------------------------- primitives

// AppendUvarint: 7 bits at a time, least significant first, MSB of each byte is
// the continuation bit; at most 9 bytes, the 9th carries 8 bits and no
// continuation bit.
func AppendUvarint(b []byte, v uint64) []byte {
	n := 0
	for n < 8 && v >= 0x80 {
		b = append(b, byte(v&0x7f)|0x80)
		v >>= 7
		n++
	}
	return append(b, byte(v))
}

func UvarintLen(v uint64) int {
	nbits := bits.Len64(v)
	if nbits == 0 {
		return 1
	}
	if nbits > 56 {
		return 9
	}
	return (nbits + 6) / 7
}

// ReadUvarint returns value and number of bytes consumed.
func ReadUvarint(b []byte) (uint64, int, error) {
	var v uint64
	for i := 0; i < 9; i++ {
		if i >= len(b) {
			return 0, 0, ErrEOF
		}
		c := b[i]
		if i == 8 {
			v |= uint64(c) << 56
			return v, 9, nil
		}
		v |= uint64(c&0x7f) << (7 * uint(i))
		if c&0x80 == 0 {
			return v, i + 1, nil
		}
	}
	panic("unreachable")
}

func ZigZag(v int64) uint64 {
	if v >= 0 {
		return uint64(v) * 2
	}
	return uint64(-(v+1))*2 + 1
}

func UnZigZag(u uint64) int64 {
	if u&1 == 0 {
		return int64(u / 2)
	}
	return -int64(u/2) - 1
}

func AppendVarint(b []byte, v int64) []byte { return AppendUvarint(b, ZigZag(v)) }
func VarintLen(v int64) int                 { return UvarintLen(ZigZag(v)) }

func ReadVarint(b []byte) (int64, int, error) {
	u, n, err := ReadUvarint(b)
	if err != nil {
		return 0, 0, err
	}
	return UnZigZag(u), n, nil
}

func AppendFloat64LE(b []byte, v float64) []byte {
	u := math.Float64bits(v)
	for i := 0; i < 8; i++ {
		b = append(b, byte(u>>(8*uint(i))))
	}
	return b
}

func ReadFloat64LE(b []byte) (float64, int, error) {
	if len(b) < 8 {
		return 0, 0, ErrEOF
	}
	var u uint64
	for i := 7; i >= 0; i-- {
		u = u<<8 | uint64(b[i])
	}
	return math.Float64frombits(u), 8, nil
}

var oneBits = math.Float64bits(1)

func varfloatWord(v float64) uint64 {
	return bits.RotateLeft64(math.Float64bits(v+1)-oneBits, 6)
}

// VarfloatLen: number of 7-bit groups (most significant first) needed so that
// all remaining lower bits are zero; the 9th byte carries the last 8 bits.
func VarfloatLen(v float64) int {
	x := varfloatWord(v)
	for k := 1; k <= 8; k++ {
		if x<<(7*uint(k)) == 0 {
			return k
		}
	}
	return 9
}

func AppendVarfloat(b []byte, v float64) []byte {
	x := varfloatWord(v)
	k := VarfloatLen(v)
	for i := 0; i < k; i++ {
		if i == 8 {
			b = append(b, byte(x))
			break
		}
		g := byte(x>>(57-7*uint(i))) & 0x7f
		if i < k-1 {
			g |= 0x80
		}
		b = append(b, g)
	}
	return b
}

// VarfloatTransform is what the documentation says a decoded varfloat64 equals: (v+1)-1 through the bit shift.
func VarfloatTransform(v float64) float64 {
	t := v + 1
	return t - 1
}

func ReadVarfloat(b []byte) (float64, int, error) {
	var x uint64
	for i := 0; i < 9; i++ {
		if i >= len(b) {
			return 0, 0, ErrEOF
		}
		c := b[i]
		if i == 8 {
			x |= uint64(c)
			return wordToFloat(x), 9, nil
		}
		x |= uint64(c&0x7f) << (57 - 7*uint(i))
		if c&0x80 == 0 {
			return wordToFloat(x), i + 1, nil
		}
	}
	panic("unreachable")
}

func wordToFloat(x uint64) float64 {
	return math.Float64frombits(bits.RotateLeft64(x, -6)+oneBits) - 1
}

// ---------------------------------------------------------------- flags

const (
	TypeFeature = 0b00
	TypeMapping = 0b10
	TypePos     = 0b01
	TypeNeg     = 0b11

	SubZeroCount = 1
	SubCount     = 0x28
	SubSum       = 0x21
	SubMin       = 0x22
	SubMax       = 0x23

	SubMapLog    = 0
	SubMapLinear = 1
	SubMapQuad   = 2
	SubMapCubic  = 3
	SubMapQuart  = 4

	LayoutDeltasCounts = 1
	LayoutDeltas       = 2
	LayoutContiguous   = 3
)

func Flag(typ, sub byte) byte { return typ | sub<<2 }

// FlagDefined tells whether a flag byte is one the documentation defines (for
// mappings: one of the five documented bases, of which the decoder supports
// log, linear and cubic).
func FlagDefined(f byte) bool {
	typ, sub := f&3, f>>2
	switch typ {
	case TypeFeature:
		return sub == SubZeroCount || sub == SubCount || sub == SubSum || sub == SubMin || sub == SubMax
	case TypeMapping:
		return sub <= 4
	default:
		return sub >= 1 && sub <= 3
	}
}

// FlagDecodable: defined and supported by this library's decoders (quadratic and quartic mappings are documented but not implemented).
func FlagDecodable(f byte) bool {
	if !FlagDefined(f) {
		return false
	}
	if f&3 == TypeMapping {
		sub := f >> 2
		return sub == SubMapLog || sub == SubMapLinear || sub == SubMapCubic
	}
	return true
}

// ---------------------------------------------------------------- parser

type Field struct {
	Off  int    // offset of the first byte of the field in the stream
	Len  int    // encoded length
	Kind string // flag, uvarint, varint, varfloat, float64
	Role string // n, index, delta, stride, count, gamma, offset, stat
}

type Block struct {
	Start, End int // [Start, End)
	Flag       byte
	Kind       string // zero, count, sum, min, max, mapping, pos, neg
	Layout     int    // for pos/neg
	NumBins    uint64
	Fields     []Field
}

type MapInfo struct {
	Sub    byte
	Gamma  float64
	Offset float64
}

type BinAdd struct {
	Index int64
	Count float64
}

type Content struct {
	Mappings []MapInfo
	Zero     float64
	// Adds in stream order, as (index, count) contributions. Counts in the
	// index-deltas layout are 1.
	PosAdds, NegAdds []BinAdd
	HasCount         bool
	Count            float64
	HasSum           bool
	Sum              float64
	HasMin           bool
	Min              float64
	HasMax           bool
	Max              float64
}

func (c *Content) Bins(neg bool) map[int64]float64 {
	m := map[int64]float64{}
	adds := c.PosAdds
	if neg {
		adds = c.NegAdds
	}
	for _, a := range adds {
		if a.Count != 0 {
			m[a.Index] += a.Count
		}
	}
	return m
}

type parser struct {
	b   []byte
	pos int
	blk *Block
}

func (p *parser) field(kind, role string, n int) {
	p.blk.Fields = append(p.blk.Fields, Field{Off: p.pos, Len: n, Kind: kind, Role: role})
	p.pos += n
}

func (p *parser) uvarint(role string) (uint64, error) {
	v, n, err := ReadUvarint(p.b[p.pos:])
	if err != nil {
		return 0, err
	}
	p.field("uvarint", role, n)
	return v, nil
}
func (p *parser) varint(role string) (int64, error) {
	v, n, err := ReadVarint(p.b[p.pos:])
	if err != nil {
		return 0, err
	}
	p.field("varint", role, n)
	return v, nil
}
func (p *parser) varfloat(role string) (float64, error) {
	v, n, err := ReadVarfloat(p.b[p.pos:])
	if err != nil {
		return 0, err
	}
	p.field("varfloat", role, n)
	return v, nil
}
func (p *parser) float64le(role string) (float64, error) {
	v, n, err := ReadFloat64LE(p.b[p.pos:])
	if err != nil {
		return 0, err
	}
	p.field("float64", role, n)
	return v, nil
}

// Parse splits the stream into blocks and returns the content of the complete
// blocks. On error (unknown flag, truncation) the blocks parsed so far and
// their content are still returned.
func Parse(b []byte) (*Content, []Block, error) {
	c := &Content{}
	var blocks []Block
	p := &parser{b: b}
	for p.pos < len(b) {
		start := p.pos
		flag := b[p.pos]
		blk := Block{Start: start, Flag: flag}
		p.blk = &blk
		p.field("flag", "flag", 1)
		typ, sub := flag&3, flag>>2
		// partial content of this block is staged and only committed when the block is complete
		var stageAdds []BinAdd
		var err error
		switch typ {
		case TypeFeature:
			switch sub {
			case SubZeroCount:
				blk.Kind = "zero"
				var v float64
				if v, err = p.varfloat("count"); err == nil {
					c.Zero += v
				}
			case SubCount:
				blk.Kind = "count"
				var v float64
				if v, err = p.varfloat("stat"); err == nil {
					c.HasCount = true
					c.Count += v
				}
			case SubSum:
				blk.Kind = "sum"
				var v float64
				if v, err = p.float64le("stat"); err == nil {
					c.HasSum = true
					c.Sum += v
				}
			case SubMin:
				blk.Kind = "min"
				var v float64
				if v, err = p.float64le("stat"); err == nil {
					if !c.HasMin || v < c.Min {
						c.Min = v
					}
					c.HasMin = true
				}
			case SubMax:
				blk.Kind = "max"
				var v float64
				if v, err = p.float64le("stat"); err == nil {
					if !c.HasMax || v > c.Max {
						c.Max = v
					}
					c.HasMax = true
				}
			default:
				err = fmt.Errorf("refdec: undefined sketch feature flag 0x%02x at %d", flag, start)
			}
		case TypeMapping:
			blk.Kind = "mapping"
			if sub > 4 {
				err = fmt.Errorf("refdec: undefined mapping flag 0x%02x at %d", flag, start)
				break
			}
			var g, o float64
			if g, err = p.float64le("gamma"); err != nil {
				break
			}
			if o, err = p.float64le("offset"); err != nil {
				break
			}
			c.Mappings = append(c.Mappings, MapInfo{Sub: sub, Gamma: g, Offset: o})
		default: // stores
			if typ == TypePos {
				blk.Kind = "pos"
			} else {
				blk.Kind = "neg"
			}
			blk.Layout = int(sub)
			var n uint64
			switch sub {
			case LayoutDeltasCounts:
				if n, err = p.uvarint("n"); err != nil {
					break
				}
				blk.NumBins = n
				idx := int64(0)
				for i := uint64(0); i < n && err == nil; i++ {
					var d int64
					var cnt float64
					if d, err = p.varint("delta"); err != nil {
						break
					}
					if cnt, err = p.varfloat("count"); err != nil {
						break
					}
					idx += d
					stageAdds = append(stageAdds, BinAdd{idx, cnt})
				}
			case LayoutDeltas:
				if n, err = p.uvarint("n"); err != nil {
					break
				}
				blk.NumBins = n
				idx := int64(0)
				for i := uint64(0); i < n && err == nil; i++ {
					var d int64
					if d, err = p.varint("delta"); err != nil {
						break
					}
					idx += d
					stageAdds = append(stageAdds, BinAdd{idx, 1})
				}
			case LayoutContiguous:
				if n, err = p.uvarint("n"); err != nil {
					break
				}
				blk.NumBins = n
				var idx, stride int64
				if idx, err = p.varint("index"); err != nil {
					break
				}
				if stride, err = p.varint("stride"); err != nil {
					break
				}
				for i := uint64(0); i < n && err == nil; i++ {
					var cnt float64
					if cnt, err = p.varfloat("count"); err != nil {
						break
					}
					stageAdds = append(stageAdds, BinAdd{idx, cnt})
					idx += stride
				}
			default:
				err = fmt.Errorf("refdec: undefined bin layout flag 0x%02x at %d", flag, start)
			}
		}
		if err != nil {
			blk.End = len(b)
			blocks = append(blocks, blk)
			return c, blocks, err
		}
		if typ == TypePos {
			c.PosAdds = append(c.PosAdds, stageAdds...)
		} else if typ == TypeNeg {
			c.NegAdds = append(c.NegAdds, stageAdds...)
		}
		blk.End = p.pos
		blocks = append(blocks, blk)
	}
	return c, blocks, nil
}

// ClassifyCut tells, for a cut position 0 <= cut <= len(stream) of a stream
// whose complete parse is blocks, whether the cut is on a block boundary, and
// otherwise in which block and field it falls. posInField is the number of
// bytes of the field that are kept (0 = cut right before the field).
func ClassifyCut(blocks []Block, cut int) (boundary bool, blk *Block, field *Field, posInField int) {
	for i := range blocks {
		b := &blocks[i]
		if cut == b.Start {
			return true, nil, nil, 0
		}
		if cut > b.Start && cut < b.End {
			for j := range b.Fields {
				f := &b.Fields[j]
				if cut >= f.Off && cut < f.Off+f.Len {
					return false, b, f, cut - f.Off
				}
			}
			return false, b, nil, 0
		}
	}
	return true, nil, nil, 0 // cut == len
}

// ---------------------------------------------------------------- builder

type Builder struct{ B []byte }

func (w *Builder) Zero(v float64) {
	w.B = append(w.B, Flag(TypeFeature, SubZeroCount))
	w.B = AppendVarfloat(w.B, v)
}
func (w *Builder) Count(v float64) {
	w.B = append(w.B, Flag(TypeFeature, SubCount))
	w.B = AppendVarfloat(w.B, v)
}
func (w *Builder) Stat(sub byte, v float64) {
	w.B = append(w.B, Flag(TypeFeature, sub))
	w.B = AppendFloat64LE(w.B, v)
}
func (w *Builder) Mapping(sub byte, gamma, offset float64) {
	w.B = append(w.B, Flag(TypeMapping, sub))
	w.B = AppendFloat64LE(w.B, gamma)
	w.B = AppendFloat64LE(w.B, offset)
}
func storeType(neg bool) byte {
	if neg {
		return TypeNeg
	}
	return TypePos
}
func (w *Builder) DeltasCounts(neg bool, bins []BinAdd) {
	w.B = append(w.B, Flag(storeType(neg), LayoutDeltasCounts))
	w.B = AppendUvarint(w.B, uint64(len(bins)))
	prev := int64(0)
	for _, b := range bins {
		w.B = AppendVarint(w.B, b.Index-prev)
		w.B = AppendVarfloat(w.B, b.Count)
		prev = b.Index
	}
}
func (w *Builder) Deltas(neg bool, indexes []int64) {
	w.B = append(w.B, Flag(storeType(neg), LayoutDeltas))
	w.B = AppendUvarint(w.B, uint64(len(indexes)))
	prev := int64(0)
	for _, i := range indexes {
		w.B = AppendVarint(w.B, i-prev)
		prev = i
	}
}
func (w *Builder) Contiguous(neg bool, first, stride int64, counts []float64) {
	w.B = append(w.B, Flag(storeType(neg), LayoutContiguous))
	w.B = AppendUvarint(w.B, uint64(len(counts)))
	w.B = AppendVarint(w.B, first)
	w.B = AppendVarint(w.B, stride)
	for _, c := range counts {
		w.B = AppendVarfloat(w.B, c)
	}
}
