// Package stats collects, per property, what a run actually generated: number
// of cases, labels, distinct non-trivial cases (by 64-bit hash of the canonical
// case string) and samples written out verbatim. One JSON file per process is
// written by Flush (called from TestMain); the driver merges shards.
package stats

import (
	"encoding/binary"
	"encoding/json"
	"hash/fnv"
	"os"
	"sort"
	"sync"
)

const (
	firstSamples     = 3
	reservoirSamples = 5
	maxSampleLen     = 1800
)

type sample struct {
	hash uint64
	text string
}

type propStats struct {
	Rule        string
	Evaluations int64
	Nontrivial  int64
	distinct    map[uint64]struct{}
	Labels      map[string]int64
	Counters    map[string]int64
	first       []string
	smallest    []sample // the reservoirSamples non-trivial cases with the smallest hashes: a deterministic "random" sample
}

var (
	mu    sync.Mutex
	props = map[string]*propStats{}
)

func get(prop string) *propStats {
	p := props[prop]
	if p == nil {
		p = &propStats{distinct: map[uint64]struct{}{}, Labels: map[string]int64{}, Counters: map[string]int64{}}
		props[prop] = p
	}
	return p
}

// Rule records how cases are generated and what makes one non-trivial.
func Rule(prop, rule string) {
	mu.Lock()
	defer mu.Unlock()
	get(prop).Rule = rule
}

// Count adds n to a named counter of the property (e.g. number of queries, decodes, cuts).
func Count(prop, key string, n int64) {
	mu.Lock()
	defer mu.Unlock()
	get(prop).Counters[key] += n
}

func trunc(s string) string {
	if len(s) > maxSampleLen {
		return s[:maxSampleLen] + "…[truncated]"
	}
	return s
}

// Record registers one completed (passed) case; the hash is taken over caseStr.
func Record(prop, caseStr string, labels []string, nontrivial bool) {
	h := fnv.New64a()
	h.Write([]byte(caseStr))
	RecordHashed(prop, caseStr, h.Sum64(), labels, nontrivial)
}

// RecordHashed registers one completed (passed) case whose canonical hash was
// computed by the caller (over the full case, of which caseStr may be a prefix).
func RecordHashed(prop, caseStr string, hv uint64, labels []string, nontrivial bool) {
	mu.Lock()
	defer mu.Unlock()
	p := get(prop)
	p.Evaluations++
	for _, l := range labels {
		p.Labels[l]++
	}
	if !nontrivial {
		return
	}
	p.Nontrivial++
	if _, seen := p.distinct[hv]; seen {
		return
	}
	p.distinct[hv] = struct{}{}
	if len(p.first) < firstSamples {
		p.first = append(p.first, trunc(caseStr))
		return
	}
	if len(p.smallest) < reservoirSamples {
		p.smallest = append(p.smallest, sample{hv, trunc(caseStr)})
		sort.Slice(p.smallest, func(i, j int) bool { return p.smallest[i].hash < p.smallest[j].hash })
	} else if hv < p.smallest[len(p.smallest)-1].hash {
		p.smallest[len(p.smallest)-1] = sample{hv, trunc(caseStr)}
		sort.Slice(p.smallest, func(i, j int) bool { return p.smallest[i].hash < p.smallest[j].hash })
	}
}

type outProp struct {
	Rule        string           `json:"rule"`
	Evaluations int64            `json:"evaluations"`
	Nontrivial  int64            `json:"nontrivial"`
	Distinct    int64            `json:"distinct_nontrivial"`
	Labels      map[string]int64 `json:"labels"`
	Counters    map[string]int64 `json:"counters"`
	Samples     []string         `json:"samples"`
}

// Flush writes <VERIF_STATS_OUT> (JSON) and <VERIF_STATS_OUT>.<prop>.hashes (raw
// little-endian uint64 hashes of distinct non-trivial cases, for cross-shard union).
func Flush() {
	path := os.Getenv("VERIF_STATS_OUT")
	if path == "" {
		return
	}
	mu.Lock()
	defer mu.Unlock()
	out := map[string]outProp{}
	for name, p := range props {
		o := outProp{Rule: p.Rule, Evaluations: p.Evaluations, Nontrivial: p.Nontrivial, Distinct: int64(len(p.distinct)), Labels: p.Labels, Counters: p.Counters}
		o.Samples = append(o.Samples, p.first...)
		for _, s := range p.smallest {
			o.Samples = append(o.Samples, s.text)
		}
		out[name] = o
		hs := make([]byte, 0, 8*len(p.distinct))
		for h := range p.distinct {
			hs = binary.LittleEndian.AppendUint64(hs, h)
		}
		_ = os.WriteFile(path+"."+name+".hashes", hs, 0o644)
	}
	b, _ := json.MarshalIndent(out, "", " ")
	_ = os.WriteFile(path, b, 0o644)
}
