//go:build verif

// Package layout exposes the read-only layout hook of /repo (build tag verif).
package layout

import "github.com/DataDog/sketches-go/ddsketch/store"

const Enabled = true

type Info = store.VerifLayoutInfo

func Of(s store.Store) Info { return store.VerifLayout(s) }
