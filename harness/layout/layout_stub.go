//go:build !verif

package layout

import "github.com/DataDog/sketches-go/ddsketch/store"

const Enabled = false

type Info struct {
	Kind         string
	ArrayLen     int
	ArrayOffset  int
	Collapsed    bool
	MaxNumBins   int
	BufferLen    int
	NumPages     int
	PagesLen     int
	MinPageIndex int
	TriggerLen   int
}

func Of(s store.Store) Info { return Info{Kind: "nohook"} }
