// Package gen holds the rapid generators shared by the properties: mappings,
// store kinds, index clusters, dyadic weights and float values built from the
// mapping under test. All randomness comes from rapid.
package gen

import (
	"fmt"
	"math"

	"github.com/DataDog/sketches-go/ddsketch/mapping"
	"github.com/DataDog/sketches-go/ddsketch/store"
	"pgregory.net/rapid"
)

// ---------------------------------------------------------------- stores

type StoreKind struct {
	Name string // dense, sparse, paginated, collow, colhigh
	N    int    // bin limit for collapsing kinds
}

func (k StoreKind) String() string {
	if k.Collapsing() {
		return fmt.Sprintf("%s(%d)", k.Name, k.N)
	}
	return k.Name
}
func (k StoreKind) Collapsing() bool { return k.Name == "collow" || k.Name == "colhigh" }
func (k StoreKind) Lowest() bool     { return k.Name == "collow" }

func (k StoreKind) New() store.Store {
	switch k.Name {
	case "dense":
		return store.NewDenseStore()
	case "sparse":
		return store.NewSparseStore()
	case "paginated":
		return store.NewBufferedPaginatedStore()
	case "collow":
		return store.NewCollapsingLowestDenseStore(k.N)
	case "colhigh":
		return store.NewCollapsingHighestDenseStore(k.N)
	}
	panic("unknown store kind " + k.Name)
}

func (k StoreKind) Provider() store.Provider { return func() store.Store { return k.New() } }

var NonCollapsing = []StoreKind{{Name: "dense"}, {Name: "sparse"}, {Name: "paginated"}}

var binLimits = []int{1, 2, 3, 4, 5, 8, 16, 31, 32, 33, 64, 65, 100, 128, 1024, 2048}

func BinLimit() *rapid.Generator[int] {
	return rapid.Custom(func(t *rapid.T) int {
		if rapid.IntRange(0, 9).Draw(t, "nclass") < 6 {
			return rapid.SampledFrom(binLimits[:9]).Draw(t, "N")
		}
		if rapid.IntRange(0, 3).Draw(t, "nclass2") == 0 {
			return rapid.IntRange(1, 2048).Draw(t, "N")
		}
		return rapid.SampledFrom(binLimits).Draw(t, "N")
	})
}

func NonCollapsingKind() *rapid.Generator[StoreKind] { return rapid.SampledFrom(NonCollapsing) }

func CollapsingKind() *rapid.Generator[StoreKind] {
	return rapid.Custom(func(t *rapid.T) StoreKind {
		name := rapid.SampledFrom([]string{"collow", "colhigh"}).Draw(t, "ckind")
		return StoreKind{Name: name, N: BinLimit().Draw(t, "N")}
	})
}

// AnyKind draws any of the five store kinds.
func AnyKind() *rapid.Generator[StoreKind] {
	return rapid.Custom(func(t *rapid.T) StoreKind {
		if rapid.IntRange(0, 4).Draw(t, "kindclass") < 3 {
			return NonCollapsingKind().Draw(t, "kind")
		}
		return CollapsingKind().Draw(t, "kind")
	})
}

// ---------------------------------------------------------------- mappings

type MapSpec struct {
	Kind      string // log, linear, cubic
	FromAlpha bool
	Alpha     float64 // when FromAlpha
	Gamma     float64 // otherwise
	Offset    float64
	Nominal   float64 // the accuracy the mapping was configured for (0 if built from an arbitrary gamma)
}

func (s MapSpec) String() string {
	if s.FromAlpha {
		return fmt.Sprintf("%s(alpha=%v)", s.Kind, s.Alpha)
	}
	return fmt.Sprintf("%s(gamma=%v,offset=%v)", s.Kind, s.Gamma, s.Offset)
}

func (s MapSpec) Build() (mapping.IndexMapping, error) {
	if s.FromAlpha {
		switch s.Kind {
		case "log":
			return mapping.NewLogarithmicMapping(s.Alpha)
		case "linear":
			return mapping.NewLinearlyInterpolatedMapping(s.Alpha)
		case "cubic":
			return mapping.NewCubicallyInterpolatedMapping(s.Alpha)
		}
	} else {
		switch s.Kind {
		case "log":
			return mapping.NewLogarithmicMappingWithGamma(s.Gamma, s.Offset)
		case "linear":
			return mapping.NewLinearlyInterpolatedMappingWithGamma(s.Gamma, s.Offset)
		case "cubic":
			return mapping.NewCubicallyInterpolatedMappingWithGamma(s.Gamma, s.Offset)
		}
	}
	panic("unknown mapping kind " + s.Kind)
}

var MapKinds = []string{"log", "linear", "cubic"}

var alphaLiterals = []float64{1e-6, 1e-3, 0.01, 0.02, 0.05, 0.1, 0.5, 0.99}

// LogUniform draws exp(uniform(ln lo, ln hi)).
func LogUniform(lo, hi float64) *rapid.Generator[float64] {
	return rapid.Custom(func(t *rapid.T) float64 {
		u := rapid.Float64Range(math.Log(lo), math.Log(hi)).Draw(t, "lnu")
		v := math.Exp(u)
		if v < lo {
			v = lo
		}
		if v > hi {
			v = hi
		}
		return v
	})
}

// Alpha draws a relative accuracy in [lo, hi] (log-uniform, with the literals that fall in range over-represented).
func Alpha(lo, hi float64) *rapid.Generator[float64] {
	return rapid.Custom(func(t *rapid.T) float64 {
		if rapid.IntRange(0, 2).Draw(t, "alphaclass") == 0 {
			var lits []float64
			for _, a := range alphaLiterals {
				if a >= lo && a <= hi {
					lits = append(lits, a)
				}
			}
			if len(lits) > 0 {
				return rapid.SampledFrom(lits).Draw(t, "alpha")
			}
		}
		return LogUniform(lo, hi).Draw(t, "alpha")
	})
}

// MappingFromAlpha draws a mapping built by New*Mapping(alpha).
func MappingFromAlpha(lo, hi float64) *rapid.Generator[MapSpec] {
	return rapid.Custom(func(t *rapid.T) MapSpec {
		a := Alpha(lo, hi).Draw(t, "alpha")
		return MapSpec{Kind: rapid.SampledFrom(MapKinds).Draw(t, "mkind"), FromAlpha: true, Alpha: a, Nominal: a}
	})
}

// GammaOf returns (gamma, offset) of a mapping as its protobuf form reports them.
func GammaOf(m mapping.IndexMapping) (float64, float64) {
	p := m.ToProto()
	return p.Gamma, p.IndexOffset
}

// KindOf returns log / linear / cubic.
func KindOf(m mapping.IndexMapping) string {
	switch m.(type) {
	case *mapping.LogarithmicMapping:
		return "log"
	case *mapping.LinearlyInterpolatedMapping:
		return "linear"
	case *mapping.CubicallyInterpolatedMapping:
		return "cubic"
	}
	return "unknown"
}

// SketchMapping draws a mapping for sketch-level properties: built from alpha
// in [lo,hi]; one time in four rebuilt from its serialized (gamma, offset)
// with a non-default, moderate offset.
func SketchMapping(lo, hi float64) *rapid.Generator[MapSpec] {
	return rapid.Custom(func(t *rapid.T) MapSpec {
		s := MappingFromAlpha(lo, hi).Draw(t, "mapping")
		if rapid.IntRange(0, 3).Draw(t, "rebuild") != 0 {
			return s
		}
		m, err := s.Build()
		if err != nil {
			panic(err)
		}
		g, o := GammaOf(m)
		off := rapid.SampledFrom([]float64{0, o, 0.5, -0.5, 1, -1, 7.25, -1000.75, 1e6, -1e6}).Draw(t, "offset")
		if rapid.IntRange(0, 3).Draw(t, "engineered") == 0 {
			// offset engineered so that (i0 - offset)/multiplier is an integer k or a float neighbour of it (see C03)
			mult := 1 / math.Log2(g)
			if s.Kind == "log" {
				mult = 1 / math.Log(g)
			}
			k := float64(rapid.IntRange(-3, 3).Draw(t, "engk"))
			tgt := NextUp(k, rapid.IntRange(-2, 2).Draw(t, "engulps"))
			if k == 0 {
				tgt = rapid.SampledFrom([]float64{0, 5e-324, -5e-324, 0x1p-53, -0x1p-53, 1e-17, -1e-17}).Draw(t, "engzero")
			}
			d := tgt * mult
			for _, c := range []float64{d, NextUp(d, 1), NextUp(d, -1), NextUp(d, 2), NextUp(d, -2)} {
				if c/mult == tgt {
					d = c
					break
				}
			}
			off = float64(rapid.SampledFrom([]int{0, 0, 1, -300}).Draw(t, "engi0")) - d
		}
		return MapSpec{Kind: s.Kind, Gamma: g, Offset: off, Nominal: s.Alpha}
	})
}

// ---------------------------------------------------------------- weights

// Quantum is the number of fractional bits of generated weights.
const Quantum = 10

// Weight draws a dyadic weight: a multiple of 2^-10 in (0, 2^20], with 1 over-represented; 0 when allowZero and drawn.
func Weight(allowZero bool) *rapid.Generator[float64] {
	return rapid.Custom(func(t *rapid.T) float64 {
		c := rapid.IntRange(0, 11).Draw(t, "wclass")
		switch {
		case c <= 3:
			return 1
		case c == 4 && allowZero:
			return 0
		case c <= 6:
			return float64(rapid.IntRange(1, 16).Draw(t, "wsmallint"))
		case c <= 8:
			return float64(rapid.IntRange(1, 1<<12).Draw(t, "wfrac")) / 1024
		case c == 9:
			return math.Ldexp(1, rapid.IntRange(-10, 20).Draw(t, "wpow"))
		default:
			return float64(rapid.IntRange(1, 1<<30).Draw(t, "wbig")) / 1024
		}
	})
}

// LightWeight draws dyadic weights at most 4 (for cases that need small totals).
func LightWeight() *rapid.Generator[float64] {
	return rapid.Custom(func(t *rapid.T) float64 {
		c := rapid.IntRange(0, 5).Draw(t, "lwclass")
		switch {
		case c <= 1:
			return 1
		case c <= 3:
			return float64(rapid.IntRange(1, 1<<10).Draw(t, "lwfrac")) / 1024
		case c == 4:
			return math.Ldexp(1, rapid.IntRange(-10, 2).Draw(t, "lwpow"))
		default:
			return float64(rapid.IntRange(1, 4).Draw(t, "lwint"))
		}
	})
}

type Factor struct {
	F     float64
	Shift int     // number of fractional bits the factor adds (k for a*2^-k)
	Grow  float64 // max(F,1) times the odd numerator's growth: bound on how the integer numerator of weights grows
}

var factors = []Factor{
	{1, 0, 1}, {2, 0, 2}, {4, 0, 4}, {64, 0, 64}, {0.5, 1, 1}, {0.25, 2, 1}, {1.0 / 64, 6, 1},
	{3, 0, 3}, {1.5, 1, 3}, {0.75, 2, 3}, {5, 0, 5}, {0.125, 3, 1}, {8, 0, 8},
}

// ReweightFactor draws a dyadic reweighting factor.
func ReweightFactor() *rapid.Generator[Factor] { return rapid.SampledFrom(factors) }

// ---------------------------------------------------------------- indexes

// ClusterBase draws a cluster base anywhere in int32 space, biased to structural values.
func ClusterBase(span int) *rapid.Generator[int] {
	return rapid.Custom(func(t *rapid.T) int {
		c := rapid.IntRange(0, 9).Draw(t, "baseclass")
		var b int
		switch {
		case c <= 3:
			b = rapid.SampledFrom([]int{0, 0, -1, 1, 31, 32, 33, -31, -32, -33, 64, -64, 128, -128, 1000, -1000}).Draw(t, "base")
		case c <= 5:
			k := rapid.IntRange(5, 30).Draw(t, "basepow")
			b = (1 << k) + rapid.IntRange(-3, 3).Draw(t, "based")
			if rapid.Bool().Draw(t, "baseneg") {
				b = -b
			}
		case c == 6:
			b = math.MinInt32 + rapid.IntRange(0, 40).Draw(t, "basek")
		case c == 7:
			b = math.MaxInt32 - rapid.IntRange(0, 40).Draw(t, "basek")
		default:
			b = rapid.IntRange(math.MinInt32, math.MaxInt32).Draw(t, "base")
		}
		// keep base+[-span, span] inside int32
		if b < math.MinInt32+span {
			b = math.MinInt32 + span
		}
		if b > math.MaxInt32-span {
			b = math.MaxInt32 - span
		}
		return b
	})
}

// Delta draws an offset in [-span, span], biased to page (32) and growth-chunk (64, 128) boundaries and small values.
func Delta(span int) *rapid.Generator[int] {
	return rapid.Custom(func(t *rapid.T) int {
		c := rapid.IntRange(0, 9).Draw(t, "dclass")
		var d int
		switch {
		case c <= 2:
			d = rapid.IntRange(-8, 8).Draw(t, "d")
		case c <= 4:
			m := rapid.SampledFrom([]int{32, 64, 128}).Draw(t, "dm")
			lim := span / m
			if lim > 40 {
				lim = 40
			}
			d = m*rapid.IntRange(-lim, lim).Draw(t, "dk") + rapid.IntRange(-1, 1).Draw(t, "dd")
		case c <= 6:
			lim := span
			if lim > 200 {
				lim = 200
			}
			d = rapid.IntRange(-lim, lim).Draw(t, "d")
		default:
			d = rapid.IntRange(-span, span).Draw(t, "d")
		}
		if d < -span {
			d = -span
		}
		if d > span {
			d = span
		}
		return d
	})
}

// SpanFor returns the maximum |delta| allowed for a store kind (memory-imposed, DESIGN §1.1).
func SpanFor(k StoreKind, t *rapid.T) int {
	switch k.Name {
	case "sparse":
		return 1 << 30
	case "paginated":
		return 1 << 18
	default:
		if rapid.IntRange(0, 19).Draw(t, "widespan") == 0 {
			return 1 << 18
		}
		return 1 << 14
	}
}

// ---------------------------------------------------------------- floats

func NextUp(v float64, k int) float64 {
	for ; k > 0; k-- {
		v = math.Nextafter(v, math.Inf(1))
	}
	for ; k < 0; k++ {
		v = math.Nextafter(v, math.Inf(-1))
	}
	return v
}

// ClampPos clamps a positive value into the indexable range of m.
func ClampPos(m mapping.IndexMapping, v float64) float64 {
	if !(v >= m.MinIndexableValue()) {
		return m.MinIndexableValue()
	}
	if v > m.MaxIndexableValue() {
		return m.MaxIndexableValue()
	}
	return v
}

// HintIndexes returns indexes i (among a few candidates) for which (i - offset)/multiplier is within 1e-12 of an
// integer: bins at the boundary between two binades of the interpolated mappings, worth probing on purpose.
func HintIndexes(m mapping.IndexMapping) []int {
	g, o := GammaOf(m)
	mult := 1 / math.Log2(g)
	if KindOf(m) == "log" {
		mult = 1 / math.Log(g)
	}
	var out []int
	for _, i := range []int{0, 1, -300} {
		x := (float64(i) - o) / mult
		if math.Abs(x-math.Round(x)) < 1e-12 && math.Abs(x) < 1000 {
			out = append(out, i-1, i)
		}
	}
	return out
}
