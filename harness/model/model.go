// Package model holds the reference models: the mathematical index->weight map
// (with folding for collapsing stores and the rank lookup the property
// statement defines), and the exactness budget that keeps every float64 sum the
// implementation can form exact, so that comparisons need no tolerance.
package model

import (
	"fmt"
	"math"
	"sort"
	"strings"
)

type Bin struct {
	Index int
	Count float64
}

// Map is the mathematical map from index to accumulated weight. Zero weights are never stored.
type Map map[int]float64

func (m Map) Add(i int, w float64) {
	if w == 0 {
		return
	}
	m[i] += w
}

func (m Map) Copy() Map {
	c := make(Map, len(m))
	for k, v := range m {
		c[k] = v
	}
	return c
}

func (m Map) Merge(o Map) {
	for k, v := range o {
		m.Add(k, v)
	}
}

func (m Map) Scale(f float64) {
	for k := range m {
		m[k] *= f
	}
}

func (m Map) Clear() {
	for k := range m {
		delete(m, k)
	}
}

// Sorted returns the bins in ascending index order.
func (m Map) Sorted() []Bin {
	bins := make([]Bin, 0, len(m))
	for k, v := range m {
		bins = append(bins, Bin{k, v})
	}
	sort.Slice(bins, func(i, j int) bool { return bins[i].Index < bins[j].Index })
	return bins
}

// Total is the exact total under the exactness budget (summed in ascending index order).
func (m Map) Total() float64 {
	t := 0.0
	for _, b := range m.Sorted() {
		t += b.Count
	}
	return t
}

func (m Map) MinMax() (int, int, bool) {
	if len(m) == 0 {
		return 0, 0, false
	}
	mn, mx := math.MaxInt, math.MinInt
	for k := range m {
		if k < mn {
			mn = k
		}
		if k > mx {
			mx = k
		}
	}
	return mn, mx, true
}

// Fold returns the content with every index beyond the collapsing edge folded
// into the edge bin: lowest -> indexes below max-n+1 go to max-n+1; highest ->
// indexes above min+n-1 go to min+n-1. If the span is at most n the content is unchanged.
func (m Map) Fold(n int, lowest bool) Map {
	mn, mx, ok := m.MinMax()
	if !ok || mx-mn+1 <= n {
		return m.Copy()
	}
	r := Map{}
	// fold in ascending index order so that the edge sum is formed deterministically (exact anyway under the budget)
	for _, b := range m.Sorted() {
		k := b.Index
		if lowest {
			if k < mx-n+1 {
				k = mx - n + 1
			}
		} else {
			if k > mn+n-1 {
				k = mn + n - 1
			}
		}
		r[k] += b.Count
	}
	return r
}

// Folded tells whether Fold would change the content.
func (m Map) Folded(n int) bool {
	mn, mx, ok := m.MinMax()
	return ok && mx-mn+1 > n
}

// KeyAtRank: the first index (ascending) whose cumulative weight exceeds
// max(rank, 0); the maximum index if there is none. ok=false on an empty map.
func (m Map) KeyAtRank(rank float64) (int, bool) {
	if len(m) == 0 {
		return 0, false
	}
	if rank < 0 {
		rank = 0
	}
	bins := m.Sorted()
	c := 0.0
	for _, b := range bins {
		c += b.Count
		if c > rank {
			return b.Index, true
		}
	}
	return bins[len(bins)-1].Index, true
}

// KeyAtRankSorted is KeyAtRank over bins already sorted by index (ascending).
func KeyAtRankSorted(bins []Bin, rank float64) (int, bool) {
	if len(bins) == 0 {
		return 0, false
	}
	if rank < 0 {
		rank = 0
	}
	c := 0.0
	for _, b := range bins {
		c += b.Count
		if c > rank {
			return b.Index, true
		}
	}
	return bins[len(bins)-1].Index, true
}

// ProbeRanks returns the rank probes of DESIGN §1.1: -1, 0, every cumulative
// boundary and its neighbours half a quantum away, total, total+1.
func (m Map) ProbeRanks(halfQuantum float64, maxBoundaries int) []float64 {
	r := []float64{-1, 0}
	bins := m.Sorted()
	c := 0.0
	step := 1
	if maxBoundaries > 0 && len(bins) > maxBoundaries {
		step = len(bins)/maxBoundaries + 1
	}
	for i, b := range bins {
		c += b.Count
		if i%step == 0 || i == len(bins)-1 {
			r = append(r, c-halfQuantum, c, c+halfQuantum)
		}
	}
	r = append(r, c+1)
	return r
}

func (m Map) String() string {
	var sb strings.Builder
	sb.WriteString("{")
	for i, b := range m.Sorted() {
		if i > 0 {
			sb.WriteString(" ")
		}
		fmt.Fprintf(&sb, "%d:%v", b.Index, b.Count)
		if i >= 60 {
			fmt.Fprintf(&sb, " …(%d bins)", len(m))
			break
		}
	}
	sb.WriteString("}")
	return sb.String()
}

// ---------------------------------------------------------------- exactness budget

// Budget tracks the number of fractional bits P of every weight in play in a
// case. A total T is "exact-safe" when (T+1)*2^(P+1) <= 2^52: then every
// partial sum of weights (all integer multiples of 2^-P, non-negative, bounded
// by T), every probe rank T +- 2^-(P+1), and the varfloat transform (w+1)-1
// are exactly representable in float64, in whatever order the implementation
// forms them.
type Budget struct{ P int }

func NewBudget(p int) *Budget { return &Budget{P: p} }

func (b *Budget) Fits(total float64) bool {
	return (total+1)*math.Ldexp(1, b.P+1) <= math.Ldexp(1, 52)
}

// FitsAfterFactor tells whether totals scaled by factor f=a*2^-shift still fit.
func (b *Budget) FitsAfterFactor(total, f float64, shift int) bool {
	return (total*f+1)*math.Ldexp(1, b.P+shift+1) <= math.Ldexp(1, 52)
}

func (b *Budget) HalfQuantum() float64 { return math.Ldexp(1, -(b.P + 1)) }
