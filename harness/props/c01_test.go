package props

import (
	"fmt"
	"math"
	"math/big"
	"sort"
	"testing"

	"github.com/DataDog/sketches-go/ddsketch"
	"github.com/DataDog/sketches-go/ddsketch/mapping"
	"pgregory.net/rapid"
	"verifharness/gen"
	"verifharness/model"
	"verifharness/obs"
	"verifharness/stats"
)

func init() {
	stats.Rule("C01", "rapid cases: mapping kind in {log, linear, cubic}, alpha log-uniform in [1e-9,0.99] (+literals), one in four rebuilt from (gamma, non-default offset); positive/negative store kinds drawn independently from {dense, sparse, paginated}; n in [1,300] (1% up to 3000) values built from the mapping (bin edges +-4 ulps, representatives, powers of two, range ends, uniform in-bin fill, duplicates, both signs, zeros, sub-minimum magnitudes), added one at a time with Add; queries q=0, 1, k/(n-1) and both float neighbours, uniform, tiny, 1-2^-53, single and batch form. Oracle: exact sorted multiset with exact rational rank q*(n-1); the answer must be within alpha(+fp slack) of x_floor or x_ceil (0 must be answered as 0), q=0/q=1 must be bit-identical to the representative of the true extreme's bin. Non-trivial: >= 2 distinct non-empty bins and at least one interior q whose floor and ceiling order statistics lie in different bins; distinct by hash of the printed case.")
}

// exactRank returns floor and ceil of q*(n-1) computed exactly.
func exactRank(q float64, nMinus1 *big.Rat) (lo, hi *big.Int, integer bool) {
	r := new(big.Rat).SetFloat64(q)
	r.Mul(r, nMinus1)
	lo = new(big.Int).Div(r.Num(), r.Denom()) // Euclidean division: floor for positive denominators
	if r.IsInt() {
		return lo, lo, true
	}
	return lo, new(big.Int).Add(lo, big.NewInt(1)), false
}

type accData struct {
	vals  []float64 // as added
	eff   []float64 // effective values sorted ascending
	edges int
	cl    *caseLog
}

func drawValues(t *rapid.T, d valDom, prof signProfile, n int, cl *caseLog) *accData {
	a := &accData{cl: cl}
	for i := 0; i < n; i++ {
		if i > 0 && rapid.IntRange(0, 5).Draw(t, "dup") == 0 {
			a.vals = append(a.vals, a.vals[rapid.IntRange(0, i-1).Draw(t, "dupidx")])
			cl.label("has-duplicate")
			continue
		}
		v, class, edge := d.value(t, prof)
		a.vals = append(a.vals, v)
		cl.label("has-" + class)
		if edge {
			a.edges++
			cl.label("has-edge-value")
		}
		if av := math.Abs(v); av != 0 && (av < 1e-200 || av > 1e200) {
			cl.label("extreme-magnitude")
		}
	}
	return a
}

func (a *accData) finish(m mapping.IndexMapping) {
	a.eff = make([]float64, len(a.vals))
	for i, v := range a.vals {
		a.eff[i] = effective(m, v)
	}
	sort.Float64s(a.eff)
}

// binOf identifies the bin of an effective value: (side, index).
func binOf(m mapping.IndexMapping, x float64) [2]int {
	switch {
	case x > 0:
		return [2]int{1, m.Index(x)}
	case x < 0:
		return [2]int{-1, m.Index(-x)}
	}
	return [2]int{0, 0}
}

func queryPoints(t *rapid.T, n int, cl *caseLog) []float64 {
	qs := []float64{0, 1, 0.5, 1 - 0x1p-53, 5e-324, 1e-300, 0x1p-53}
	if n > 1 {
		nk := 6
		for j := 0; j < nk; j++ {
			k := rapid.IntRange(0, n-1).Draw(t, "k")
			q := float64(k) / float64(n-1)
			qs = append(qs, q)
			if q > 0 {
				qs = append(qs, math.Nextafter(q, 0))
			}
			if q < 1 {
				qs = append(qs, math.Nextafter(q, 2))
			}
		}
		if n <= 12 {
			for k := 0; k < n; k++ {
				qs = append(qs, float64(k)/float64(n-1))
			}
		}
		cl.label("q-on-integer-rank")
	}
	for j := 0; j < 6; j++ {
		qs = append(qs, rapid.Float64Range(0, 1).Draw(t, "q"))
	}
	return qs
}

func TestC01(t *testing.T) {
	rapid.Check(t, func(t *rapid.T) {
		cl := newCase("C01")
		c := drawCfg(t, cfgOpt{alphaLo: 1e-9, alphaHi: 0.99})
		d := drawDomain(t, c.m, windowFor(c))
		prof := drawProfile(t)
		n := rapid.IntRange(1, 300).Draw(t, "n")
		if rapid.IntRange(0, 99).Draw(t, "big") == 0 {
			n = rapid.IntRange(300, 3000).Draw(t, "nbig")
		}
		cl.logf("C01 %s window=[%d,%d] n=%d", c, d.lo, d.hi, n)
		cl.label("mapping:" + c.spec.Kind)
		cl.label("pos:" + c.pos.Name)
		cl.label("neg:" + c.neg.Name)
		cl.labelIf(!c.spec.FromAlpha, "custom-offset")
		a := drawValues(t, d, prof, n, cl)
		s := c.new()
		// queries may be interleaved with the additions: at up to two checkpoints the prefix added so far is queried and judged
		checkpoints := map[int]bool{}
		if n > 1 && rapid.Bool().Draw(t, "interleave") {
			for j := 0; j < rapid.IntRange(1, 2).Draw(t, "ncheckpoints"); j++ {
				checkpoints[rapid.IntRange(1, n-1).Draw(t, "checkpoint")] = true
			}
			cl.label("queries-interleaved-with-adds")
		}
		for i, v := range a.vals {
			if checkpoints[i] {
				pre := &accData{vals: a.vals[:i], cl: cl}
				pre.finish(c.m)
				cl.logf("queries after %d adds", i)
				checkQuantileAccuracy(t, "C01", cl, c, s, pre, queryPoints(t, i, cl), nil)
			}
			cl.logf("Add(%v)", v)
			if err := s.Add(v); err != nil {
				t.Fatalf("C01: Add(%v) refused: %v (|v| <= MaxIndexableValue=%v)", v, err, c.m.MaxIndexableValue())
			}
		}
		a.finish(c.m)
		qs := queryPoints(t, n, cl)
		nb, crossing := checkQuantileAccuracy(t, "C01", cl, c, s, a, qs, nil)
		cl.done(nb >= 2 && crossing)
	})
}

// retainedFn tells whether the bin of effective value x is retained (always true for non-collapsing stores).
type retainedFn func(x float64) bool

func checkQuantileAccuracy(t *rapid.T, prop string, cl *caseLog, c skCfg, s obs.SK, a *accData, qs []float64, retained retainedFn) (nbins int, crossing bool) {
	n := len(a.eff)
	nm1 := big.NewRat(int64(n-1), 1)
	batch, err := s.GetValuesAtQuantiles(qs)
	if err != nil {
		t.Fatalf("%s: GetValuesAtQuantiles(%v) on a sketch with %d values returned %v", prop, qs, n, err)
	}
	bins := map[[2]int]bool{}
	for _, x := range a.eff {
		bins[binOf(c.m, x)] = true
	}
	gmin, _ := s.GetMinValue()
	gmax, _ := s.GetMaxValue()
	for i, q := range qs {
		y, err := s.GetValueAtQuantile(q)
		if err != nil {
			t.Fatalf("%s: GetValueAtQuantile(%v) on a sketch with %d values returned %v", prop, q, n, err)
		}
		if !obs.FEq(y, batch[i]) && !(y == 0 && batch[i] == 0) {
			t.Fatalf("%s: GetValuesAtQuantiles differs from GetValueAtQuantile at q=%v: %v vs %v", prop, q, batch[i], y)
		}
		lo, hi, _ := exactRank(q, nm1)
		xlo, xhi := a.eff[lo.Int64()], a.eff[hi.Int64()]
		judged := true
		if retained != nil && !(retained(xlo) && retained(xhi)) {
			judged = false
			stats.Count(prop, "queries_not_judged_for_accuracy_(order_statistic_in_a_folded_bin)", 1)
		}
		if judged {
			if !withinAlpha(c.m, alphaOf(c), y, xlo) && !withinAlpha(c.m, alphaOf(c), y, xhi) {
				t.Fatalf("%s: %s: q=%v (exact rank in [%v,%v] of n=%d): answer %v is not within alpha=%v of x_floor=%v nor x_ceil=%v", prop, c, q, lo, hi, n, y, alphaOf(c), xlo, xhi)
			}
			if q > 0 && q < 1 && binOf(c.m, xlo) != binOf(c.m, xhi) {
				crossing = true
			}
			if q == 0 || q == 1 {
				x := xlo
				want := 0.0
				if x > 0 {
					want = c.m.Value(c.m.Index(x))
				} else if x < 0 {
					want = -c.m.Value(c.m.Index(-x))
				}
				if !(y == want) {
					t.Fatalf("%s: %s: q=%v must land in the bin of the true extreme %v: got %v want %v", prop, c, q, x, y, want)
				}
			}
		}
		if y < gmin || y > gmax {
			t.Fatalf("%s: %s: q=%v answer %v outside reported [min,max]=[%v,%v]", prop, c, q, y, gmin, gmax)
		}
		if (y > 0 && a.eff[n-1] <= 0) || (y < 0 && a.eff[0] >= 0) {
			t.Fatalf("%s: %s: q=%v answer %v has the sign of an empty side (data in [%v,%v])", prop, c, q, y, a.eff[0], a.eff[n-1])
		}
	}
	stats.Count(prop, "quantile_queries", int64(len(qs)))
	cl.logf("queries=%v", qs)
	cl.labelIf(crossing, "interior-q-across-bins")
	return len(bins), crossing
}

// ---------------------------------------------------------------- C05, sketch level

func TestC05_Sketch(t *testing.T) {
	rapid.Check(t, func(t *rapid.T) {
		cl := newCase("C05")
		lowest := rapid.Bool().Draw(t, "lowest")
		N := gen.BinLimit().Draw(t, "N")
		alpha := gen.Alpha(1e-4, 0.5).Draw(t, "alpha")
		var sk *ddsketch.DDSketch
		var err error
		kind := gen.StoreKind{Name: "colhigh", N: N}
		if lowest {
			kind.Name = "collow"
			sk, err = ddsketch.LogCollapsingLowestDenseDDSketch(alpha, N)
		} else {
			sk, err = ddsketch.LogCollapsingHighestDenseDDSketch(alpha, N)
		}
		if err != nil {
			t.Fatalf("C05: constructor refused alpha=%v N=%d: %v", alpha, N, err)
		}
		c := skCfg{spec: gen.MapSpec{Kind: "log", FromAlpha: true, Alpha: alpha, Nominal: alpha}, m: sk.IndexMapping, pos: kind, neg: kind}
		d := newDomain(c.m)
		// data spanning 0.5N .. 10N bins
		f := rapid.SampledFrom([]float64{0.5, 1, 2, 5, 10}).Draw(t, "spread")
		w := int(float64(N)*f) + 1
		centre := c.m.Index(gen.ClampPos(c.m, math.Ldexp(1, rapid.IntRange(-300, 300).Draw(t, "centrepow"))))
		d.lo, d.hi = centre-w/2, centre-w/2+w-1
		if d.lo < d.minIdx {
			d.lo = d.minIdx
		}
		if d.hi > d.maxIdx {
			d.hi = d.maxIdx
		}
		prof := drawProfile(t)
		n := rapid.IntRange(1, 200).Draw(t, "n")
		cl.logf("C05 sketch lowest=%v N=%d alpha=%v window=[%d,%d] n=%d", lowest, N, alpha, d.lo, d.hi, n)
		cl.label("sketch-level")
		cl.label("kind:" + kind.Name)
		a := drawValues(t, d, prof, n, cl)
		s := obs.SK{Plain: sk}
		mdl := newSkModel(c.m)
		for _, v := range a.vals {
			cl.logf("Add(%v)", v)
			if err := s.Add(v); err != nil {
				t.Fatalf("C05: Add(%v) refused: %v", v, err)
			}
			mdl.add(v, 1)
		}
		a.finish(c.m)
		bud := model.NewBudget(0)
		if msg := checkAgainstModel(s, c, mdl, bud); msg != "" {
			t.Fatalf("C05 sketch %s: %s", c, msg)
		}
		folded := mdl.pos.Folded(N) || mdl.neg.Folded(N)
		retained := func(x float64) bool {
			if x == 0 {
				return true
			}
			side, i := mdl.pos, c.m.Index(math.Abs(x))
			if x < 0 {
				side = mdl.neg
			}
			mn, mx, _ := side.MinMax()
			if mx-mn+1 <= N {
				return true
			}
			if lowest {
				return i >= mx-N+1
			}
			return i <= mn+N-1
		}
		qs := queryPoints(t, n, cl)
		cl.labelIf(folded, "folded")
		cl.labelIf(folded, "op-after-fold")
		cl.label(fmt.Sprintf("Nclass:%s", nClass(N)))
		checkQuantileAccuracy(t, "C05", cl, c, s, a, qs, retained)
		cl.done(folded)
	})
}

// TestC01_LargeScale: few cases with tens of thousands of values from one smooth distribution (plus thin tails),
// added one at a time, so that the stores reach sizes short cases never reach; accuracy of q=0, q=1, the extreme
// ranks and a grid is judged against the exact sorted multiset.
func TestC01_LargeScale(t *testing.T) {
	rapid.Check(t, func(t *rapid.T) {
		cl := newCase("C01")
		c := drawCfg(t, cfgOpt{alphaLo: 1e-3, alphaHi: 0.05})
		n := rapid.IntRange(4000, 60000).Draw(t, "n")
		pages := rapid.SampledFrom([]int{2, 20, 100, 300, 300, 600}).Draw(t, "pages")
		width := 32 * pages
		d := newDomain(c.m)
		centre := c.m.Index(1)
		tails := rapid.IntRange(0, 1500).Draw(t, "tails")
		shape := rapid.SampledFrom([]string{"uniform", "round-robin", "bell", "ascending"}).Draw(t, "shape")
		negSide := rapid.IntRange(0, 3).Draw(t, "negside") == 0
		seed := rapid.Uint64().Draw(t, "lcgseed")
		lcg := func() uint64 {
			seed = seed*6364136223846793005 + 1442695040888963407
			return seed >> 11
		}
		cl.logf("C01 large-scale %s n=%d width=%d tails=%d shape=%s neg=%v", c, n, width, tails, shape, negSide)
		cl.label("large-scale")
		cl.label("pos:" + c.pos.Name)
		s := c.new()
		a := &accData{cl: cl}
		for i := 0; i < n; i++ {
			var idx int
			if tails > 0 && int(lcg()%uint64(n)) < tails {
				idx = centre - 8000 + int(lcg()%16000)
			} else {
				switch shape {
				case "uniform":
					idx = centre + int(lcg()%uint64(width))
				case "round-robin":
					idx = centre + (i*37)%width
				case "bell":
					idx = centre + int((lcg()%uint64(width)+lcg()%uint64(width)+lcg()%uint64(width))/3)
				default:
					idx = centre + i*width/n
				}
			}
			if idx <= d.minIdx {
				idx = d.minIdx + 1
			}
			if idx >= d.maxIdx {
				idx = d.maxIdx - 1
			}
			v := d.clamp(c.m.Value(idx))
			if negSide && lcg()%3 == 0 {
				v = -v
			}
			if err := s.Add(v); err != nil {
				t.Fatalf("C01 large: Add(%v): %v", v, err)
			}
			a.vals = append(a.vals, v)
		}
		a.finish(c.m)
		qs := []float64{0, 1, 0.5}
		for k := 0; k < 40; k++ {
			qs = append(qs, float64(k)/float64(n-1), float64(n-1-k)/float64(n-1))
		}
		for k := 0; k < 40; k++ {
			qs = append(qs, float64(lcg()%1000000)/1000000)
		}
		nb, crossing := checkQuantileAccuracy(t, "C01", cl, c, s, a, qs, nil)
		stats.Count("C01", "large_scale_additions", int64(n))
		cl.done(nb >= 2 && crossing)
	})
}
