package props

import (
	"encoding/binary"
	"fmt"
	"io"
	"math"
	"testing"

	enc "github.com/DataDog/sketches-go/ddsketch/encoding"
	"pgregory.net/rapid"
	"verifharness/obs"
	"verifharness/refdec"
	"verifharness/stats"
)

const c18 = "C18"

func init() {
	stats.Rule(c18, "rapid cases: (a) batches of uint64/int64/float64 values drawn from bit-length classes, 2^k+-d, extremes, uniform bit patterns (NaN payloads, infinities, subnormals, negatives), k/2^p and values whose +1 rounds, each encoded, compared byte-for-byte with the independent reference encoder (refdec), size-checked, decoded with 0..3 trailing bytes, and every strict prefix decoded; (b) random byte strings of length <= 12 decoded by all five decoders and compared with the reference decoder; plus an exhaustive enumeration of all byte strings of length 0..2 (x2 trailing variants) for the five decoders and all 256 flag bytes (counters exhaustive_*). A case is non-trivial when it contains a value at a length-class boundary, a non-finite/negative/non-representable-after-+1 float, or a byte string whose last byte has the continuation bit set; distinct by hash of the printed case.")
}

// ---- decoder adapters (under test)

type decFn func(b *[]byte) (any, error)

var decoders = []struct {
	name string
	dec  decFn
	ref  func(b []byte) (any, int, error)
	max  int
}{
	{"uvarint64", func(b *[]byte) (any, error) { return enc.DecodeUvarint64(b) }, func(b []byte) (any, int, error) { v, n, e := refdec.ReadUvarint(b); return v, n, e }, 9},
	{"varint64", func(b *[]byte) (any, error) { return enc.DecodeVarint64(b) }, func(b []byte) (any, int, error) { v, n, e := refdec.ReadVarint(b); return v, n, e }, 9},
	{"varint32", func(b *[]byte) (any, error) { return enc.DecodeVarint32(b) }, func(b []byte) (any, int, error) { v, n, e := refdec.ReadVarint(b); return v, n, e }, 9},
	{"varfloat64", func(b *[]byte) (any, error) { return enc.DecodeVarfloat64(b) }, func(b []byte) (any, int, error) { v, n, e := refdec.ReadVarfloat(b); return v, n, e }, 9},
	{"float64LE", func(b *[]byte) (any, error) { return enc.DecodeFloat64LE(b) }, func(b []byte) (any, int, error) { v, n, e := refdec.ReadFloat64LE(b); return v, n, e }, 8},
}

func sameHeader(a, b []byte) bool {
	if len(a) != len(b) {
		return false
	}
	if len(a) == 0 {
		return true
	}
	return &a[0] == &b[0]
}

func valEq(a, b any) bool {
	switch x := a.(type) {
	case float64:
		y, ok := b.(float64)
		return ok && obs.FEq(x, y)
	case int32:
		switch y := b.(type) {
		case int64:
			return int64(x) == y
		case int32:
			return x == y
		}
		return false
	default:
		return a == b
	}
}

// checkDecodeBytes applies the arbitrary-bytes oracle for decoder d on input in. Returns an error string or "".
func checkDecodeBytes(d int, in []byte) (msg string) {
	dd := decoders[d]
	buf := append([]byte(nil), in...)
	orig := buf
	defer func() {
		if r := recover(); r != nil {
			msg = fmt.Sprintf("%s panicked on % x: %v", dd.name, in, r)
		}
	}()
	got, err := dd.dec(&buf)
	want, n, rerr := dd.ref(in)
	for i := range in {
		if orig[i] != in[i] {
			return fmt.Sprintf("%s modified its input % x", dd.name, in)
		}
	}
	if rerr != nil {
		// reference says truncated: must be io.EOF, nothing consumed
		if err != io.EOF {
			return fmt.Sprintf("%s(% x): reference says end of input, got value %v err %v", dd.name, in, got, err)
		}
		if !sameHeader(buf, orig) {
			return fmt.Sprintf("%s(% x): returned EOF but consumed input (len %d -> %d)", dd.name, in, len(orig), len(buf))
		}
		return ""
	}
	if dd.name == "varint32" {
		v := want.(int64)
		if v > math.MaxInt32 || v < math.MinInt32 {
			if err == nil {
				return fmt.Sprintf("varint32(% x): value %d outside int32 accepted as %v", in, v, got)
			}
			return "" // the property is silent on consumption after a range error
		}
	}
	if err != nil {
		return fmt.Sprintf("%s(% x): reference decodes %v (%d bytes), got error %v", dd.name, in, want, n, err)
	}
	consumed := len(orig) - len(buf)
	if consumed != n || consumed < 1 || consumed > dd.max {
		return fmt.Sprintf("%s(% x): consumed %d bytes, reference %d (max %d)", dd.name, in, consumed, n, dd.max)
	}
	if consumed < len(orig) && &buf[0] != &orig[consumed] {
		return fmt.Sprintf("%s(% x): remaining slice does not start right after the consumed bytes", dd.name, in)
	}
	if !valEq(got, want) {
		return fmt.Sprintf("%s(% x): got %v want %v", dd.name, in, got, want)
	}
	return ""
}

func TestC18_Exhaustive(t *testing.T) {
	trailings := [][]byte{nil, {0x80, 0xff, 0x01}}
	var n int64
	for d := range decoders {
		cl := newCase(c18)
		cl.logf("exhaustive decoder=%s all byte strings of length 0..2, trailing variants %v", decoders[d].name, trailings)
		check := func(s []byte) {
			for _, tr := range trailings {
				in := append(append([]byte(nil), s...), tr...)
				if msg := checkDecodeBytes(d, in); msg != "" {
					t.Fatalf("C18 exhaustive: %s", msg)
				}
				n++
			}
		}
		check(nil)
		for a := 0; a < 256; a++ {
			check([]byte{byte(a)})
			for b := 0; b < 256; b++ {
				check([]byte{byte(a), byte(b)})
			}
		}
		cl.label("exhaustive:" + decoders[d].name)
		cl.done(true)
	}
	stats.Count(c18, "exhaustive_byte_strings_decoded", n)
	// all 256 flag bytes
	cl := newCase(c18)
	cl.logf("exhaustive all 256 flag bytes: DecodeFlag(EncodeFlag(f))=f, NewFlag(Type,SubFlag)=f, 1 byte")
	for f := 0; f < 256; f++ {
		in := []byte{byte(f), 0xAA}
		b := in
		fl, err := enc.DecodeFlag(&b)
		if err != nil || len(b) != 1 || b[0] != 0xAA {
			t.Fatalf("C18: DecodeFlag(%#x) err=%v rest=% x", f, err, b)
		}
		var out []byte
		enc.EncodeFlag(&out, fl)
		if len(out) != 1 || out[0] != byte(f) {
			t.Fatalf("C18: EncodeFlag(DecodeFlag(%#x)) = % x", f, out)
		}
		var out2 []byte
		enc.EncodeFlag(&out2, enc.NewFlag(fl.Type(), fl.SubFlag()))
		if len(out2) != 1 || out2[0] != byte(f) {
			t.Fatalf("C18: NewFlag(Type,SubFlag) of %#x = % x", f, out2)
		}
	}
	var e []byte
	if _, err := enc.DecodeFlag(&e); err != io.EOF {
		t.Fatalf("C18: DecodeFlag(empty) err=%v", err)
	}
	stats.Count(c18, "exhaustive_flag_bytes", 256)
	cl.label("exhaustive:flags")
	cl.done(true)
}

// ---- value generators

func genUint64(t *rapid.T, cl *caseLog) uint64 {
	switch rapid.IntRange(0, 5).Draw(t, "uclass") {
	case 0:
		return rapid.Uint64().Draw(t, "u")
	case 1: // every bit-length class
		n := rapid.IntRange(0, 64).Draw(t, "bitlen")
		if n == 0 {
			return 0
		}
		v := rapid.Uint64().Draw(t, "u")
		v |= 1 << 63
		return v >> (64 - uint(n))
	case 2, 3: // 2^k +- d : length-class boundaries are at k multiple of 7
		k := rapid.IntRange(0, 63).Draw(t, "k")
		if rapid.Bool().Draw(t, "k7") {
			k = 7 * rapid.IntRange(0, 9).Draw(t, "k7v")
		}
		d := rapid.IntRange(-3, 3).Draw(t, "d")
		cl.label("len-class-boundary")
		return (uint64(1) << uint(k)) + uint64(int64(d))
	case 4:
		cl.label("extreme")
		return rapid.SampledFrom([]uint64{0, 1, math.MaxUint64, math.MaxUint64 - 1, 1 << 63, 1<<63 - 1, 1<<56 - 1, 1 << 56, 0x7f, 0x80}).Draw(t, "uext")
	default:
		return uint64(rapid.IntRange(0, 300).Draw(t, "usmall"))
	}
}

func genFloat(t *rapid.T, cl *caseLog) float64 {
	switch rapid.IntRange(0, 8).Draw(t, "fclass") {
	case 0, 1:
		v := math.Float64frombits(rapid.Uint64().Draw(t, "fbits"))
		if math.IsNaN(v) || math.IsInf(v, 0) || v < 0 {
			cl.label("float-nonfinite-or-negative")
		}
		return v
	case 2:
		cl.label("float-nonfinite-or-negative")
		return rapid.SampledFrom([]float64{math.NaN(), math.Inf(1), math.Inf(-1), -1, -0.5, math.Copysign(0, -1), -math.MaxFloat64, math.MaxFloat64, math.SmallestNonzeroFloat64, -math.SmallestNonzeroFloat64, math.Float64frombits(0x7ff8000000000001), math.Float64frombits(0xfff0000000000123)}).Draw(t, "fspecial")
	case 3: // integers below and around 2^53
		k := rapid.IntRange(0, 54).Draw(t, "ipow")
		d := rapid.IntRange(-3, 3).Draw(t, "id")
		cl.label("integer-near-2^k")
		return math.Ldexp(1, k) + float64(d)
	case 4:
		return float64(rapid.Uint64Range(0, 1<<53).Draw(t, "fint"))
	case 5: // k / 2^p
		p := rapid.IntRange(0, 60).Draw(t, "p")
		return math.Ldexp(float64(rapid.IntRange(0, 1<<20).Draw(t, "fk")), -p)
	case 6: // in (-1, 0)
		cl.label("float-nonfinite-or-negative")
		return -rapid.Float64Range(0, 1).Draw(t, "fneg")
	case 7: // values whose +1 rounds
		cl.label("float-plus1-rounds")
		return math.Ldexp(rapid.Float64Range(1, 2).Draw(t, "fm"), rapid.IntRange(-80, 60).Draw(t, "fe"))
	default:
		return float64(rapid.IntRange(0, 300).Draw(t, "fsmall"))
	}
}

func checkRoundTrip(t *rapid.T, name string, encoded, refBytes []byte, size int, maxLen int, trailing []byte, dec decFn, want any) {
	if string(encoded) != string(refBytes) {
		t.Fatalf("C18 %s(%v): encoded % x, reference % x", name, want, encoded, refBytes)
	}
	if size >= 0 && size != len(encoded) {
		t.Fatalf("C18 %s(%v): size function says %d, encoded %d bytes", name, want, size, len(encoded))
	}
	if len(encoded) < 1 || len(encoded) > maxLen {
		t.Fatalf("C18 %s(%v): %d bytes", name, want, len(encoded))
	}
	// decode with trailing bytes
	in := append(append([]byte(nil), encoded...), trailing...)
	b := in
	got, err := dec(&b)
	if err != nil {
		t.Fatalf("C18 %s(%v): decode error %v", name, want, err)
	}
	if !valEq(got, want) {
		t.Fatalf("C18 %s: decoded %v want %v (bytes % x)", name, got, want, encoded)
	}
	if len(in)-len(b) != len(encoded) || string(b) != string(trailing) {
		t.Fatalf("C18 %s(%v): consumed %d bytes of % x, encoding was %d bytes", name, want, len(in)-len(b), in, len(encoded))
	}
	// every strict prefix -> io.EOF, nothing consumed
	for k := 0; k < len(encoded); k++ {
		p := append([]byte(nil), encoded[:k]...)
		pb := p
		_, err := dec(&pb)
		if err != io.EOF {
			t.Fatalf("C18 %s(%v): strict prefix % x of % x decoded with err=%v", name, want, p, encoded, err)
		}
		if !sameHeader(pb, p) {
			t.Fatalf("C18 %s(%v): EOF on prefix % x consumed input", name, want, p)
		}
	}
}

// encodeInto runs an encoder on a destination slice in a drawn state - empty or holding 1..12 bytes, with 0..9 bytes
// of spare capacity - and returns what it appended. The bytes already there must stay (the encoders only append),
// and no destination state may make an encoder panic.
func encodeInto(t *rapid.T, cl *caseLog, name string, f func(b *[]byte)) []byte {
	k := rapid.IntRange(0, 12).Draw(t, "dstlen")
	spare := rapid.IntRange(0, 9).Draw(t, "dstspare")
	if rapid.IntRange(0, 3).Draw(t, "dstnil") == 0 {
		k, spare = 0, 0
	}
	dst := make([]byte, k, k+spare)
	for i := range dst {
		dst[i] = byte(0xA0 + i)
	}
	if k == 0 && spare == 0 {
		dst = nil
	}
	backing := dst[:cap(dst)]
	func() {
		defer func() {
			if r := recover(); r != nil {
				t.Fatalf("C18 %s: encoding into a destination of length %d and capacity %d panicked: %v", name, k, k+spare, r)
			}
		}()
		f(&dst)
	}()
	if len(dst) < k {
		t.Fatalf("C18 %s: the destination shrank from %d to %d bytes", name, k, len(dst))
	}
	for i := 0; i < k; i++ {
		if dst[i] != byte(0xA0+i) || backing[i] != byte(0xA0+i) {
			t.Fatalf("C18 %s: byte %d already in the destination (len %d, cap %d) was overwritten", name, i, k, k+spare)
		}
	}
	cl.labelIf(k > 0 && k+spare < 8, "dst:short-nonempty-small-capacity")
	cl.labelIf(k > 0, "dst:non-empty")
	return append([]byte(nil), dst[k:]...)
}

func TestC18_Values(t *testing.T) {
	rapid.Check(t, func(t *rapid.T) {
		cl := newCase(c18)
		n := rapid.IntRange(8, 48).Draw(t, "batch")
		trailing := rapid.SliceOfN(rapid.Byte(), 0, 3).Draw(t, "trailing")
		cl.logf("values batch=%d trailing=% x", n, trailing)
		for i := 0; i < n; i++ {
			switch rapid.IntRange(0, 3).Draw(t, "codec") {
			case 0:
				v := genUint64(t, cl)
				cl.logf("uvarint64 %d", v)
				e := encodeInto(t, cl, "EncodeUvarint64", func(b *[]byte) { enc.EncodeUvarint64(b, v) })
				checkRoundTrip(t, "uvarint64", e, refdec.AppendUvarint(nil, v), enc.Uvarint64Size(v), 9, trailing, decoders[0].dec, v)
				if v < 1<<56 { // below 2^56 the format coincides with encoding/binary's uvarint
					tmp := binary.AppendUvarint(nil, v)
					if string(tmp) != string(e) {
						t.Fatalf("C18 uvarint64(%d): % x differs from encoding/binary % x", v, e, tmp)
					}
				}
			case 1:
				v := int64(genUint64(t, cl))
				if rapid.Bool().Draw(t, "zz") { // so that small magnitudes of both signs appear
					v = refdec.UnZigZag(uint64(v))
				}
				cl.logf("varint64 %d", v)
				e := encodeInto(t, cl, "EncodeVarint64", func(b *[]byte) { enc.EncodeVarint64(b, v) })
				checkRoundTrip(t, "varint64", e, refdec.AppendVarint(nil, v), enc.Varint64Size(v), 9, trailing, decoders[1].dec, v)
				// 32-bit variant
				b := append(append([]byte(nil), e...), trailing...)
				v32, err := enc.DecodeVarint32(&b)
				if v >= math.MinInt32 && v <= math.MaxInt32 {
					if err != nil || int64(v32) != v || string(b) != string(trailing) {
						t.Fatalf("C18 DecodeVarint32(%d): got %d err=%v rest % x", v, v32, err, b)
					}
				} else if err == nil {
					t.Fatalf("C18 DecodeVarint32(%d): out-of-range value accepted as %d", v, v32)
				}
			case 2:
				v := genFloat(t, cl)
				cl.logf("varfloat64 %x", math.Float64bits(v))
				e := encodeInto(t, cl, "EncodeVarfloat64", func(b *[]byte) { enc.EncodeVarfloat64(b, v) })
				want := refdec.VarfloatTransform(v)
				checkRoundTrip(t, "varfloat64", e, refdec.AppendVarfloat(nil, v), enc.Varfloat64Size(v), 9, trailing, decoders[3].dec, want)
				if (v > 0 || math.Float64bits(v) == 0) && v < 1<<53 && v == math.Floor(v) && !obs.FEq(want, v) {
					t.Fatalf("C18 harness: (v+1)-1 != v for integer %v", v)
				}
				if !obs.FEq(want, v) {
					cl.label("float-plus1-rounds")
				}
			default:
				v := genFloat(t, cl)
				cl.logf("float64LE %x", math.Float64bits(v))
				e := encodeInto(t, cl, "EncodeFloat64LE", func(b *[]byte) { enc.EncodeFloat64LE(b, v) })
				if len(e) != 8 {
					t.Fatalf("C18 float64LE: %d bytes", len(e))
				}
				checkRoundTrip(t, "float64LE", e, refdec.AppendFloat64LE(nil, v), -1, 8, trailing, decoders[4].dec, v)
			}
		}
		stats.Count(c18, "values_round_tripped", int64(n))
		cl.label("mode:values")
		cl.done(cl.has("len-class-boundary") || cl.has("float-nonfinite-or-negative") || cl.has("float-plus1-rounds") || cl.has("extreme"))
	})
}

func TestC18_Bytes(t *testing.T) {
	rapid.Check(t, func(t *rapid.T) {
		cl := newCase(c18)
		n := rapid.IntRange(8, 40).Draw(t, "batch")
		cl.logf("bytes batch=%d", n)
		for i := 0; i < n; i++ {
			var s []byte
			if rapid.Bool().Draw(t, "contheavy") {
				// continuation-heavy strings reach the 9-byte limit
				l := rapid.IntRange(0, 12).Draw(t, "len")
				for j := 0; j < l; j++ {
					s = append(s, rapid.Byte().Draw(t, "b")|0x80)
				}
				if l > 0 && rapid.Bool().Draw(t, "term") {
					s[l-1] &= 0x7f
				}
			} else {
				s = rapid.SliceOfN(rapid.Byte(), 0, 12).Draw(t, "bytes")
			}
			if len(s) > 0 && s[len(s)-1]&0x80 != 0 {
				cl.label("continuation-on-last-byte")
			}
			cl.logf("% x", s)
			for d := range decoders {
				if msg := checkDecodeBytes(d, s); msg != "" {
					t.Fatalf("C18 bytes: %s", msg)
				}
			}
		}
		stats.Count(c18, "byte_strings_decoded", int64(n*len(decoders)))
		cl.label("mode:bytes")
		cl.done(cl.has("continuation-on-last-byte"))
	})
}

// Native fuzz targets (thorough tier extra; failures are saved inputs).
func FuzzC18Bytes(f *testing.F) {
	for _, v := range []uint64{0, 0x7f, 0x80, 1<<56 - 1, 1 << 56, math.MaxUint64} {
		f.Add(refdec.AppendUvarint(nil, v))
	}
	for _, v := range []float64{0, 1, 2, 1 << 53, 0.5, -1, math.Inf(1), math.NaN()} {
		f.Add(refdec.AppendVarfloat(nil, v))
	}
	f.Fuzz(func(t *testing.T, in []byte) {
		for d := range decoders {
			if msg := checkDecodeBytes(d, in); msg != "" {
				t.Fatalf("C18 fuzz: %s", msg)
			}
		}
	})
}
