package props

import (
	"fmt"
	"math"
	"sort"
	"testing"

	"github.com/DataDog/sketches-go/ddsketch/store"
	"pgregory.net/rapid"
	"verifharness/gen"
	"verifharness/layout"
)

// C16 with factors and weights that are NOT dyadic: any positive float64 factor (in particular factors next to 1
// and far from 1) and arbitrary positive weights. Nothing can be compared bit for bit through sums here, so every
// bin receives exactly one contribution c (one weighted add, or k unit adds with no reweighting in between, which
// every store accumulates exactly); after the reweightings that followed the contribution the bin must hold c times
// their product up to a few ulps, the zero bucket likewise, totals up to the rounding of a sum of that many terms,
// and the exact statistics scale accordingly (extremes untouched).

func arbFactor(t *rapid.T) float64 {
	switch rapid.IntRange(0, 5).Draw(t, "fclass") {
	case 0:
		return rapid.SampledFrom([]float64{math.Nextafter(1, 2), math.Nextafter(1, 0), 1 + 1e-9, 1 - 1e-9, 1.0000001, 1.01, 1.1, 1.19, 1.2, 1.5, 0.99, 0.9, 0.5000001, 2.0000001}).Draw(t, "fnear1")
	case 1:
		return 1 + rapid.Float64Range(-0.5, 1).Draw(t, "faround1")
	case 2:
		return float64(rapid.IntRange(2, 1000).Draw(t, "fint"))
	case 3:
		return 1 / float64(rapid.IntRange(2, 1000).Draw(t, "finv"))
	default:
		return gen.LogUniform(1e-6, 1e6).Draw(t, "flog")
	}
}

func arbWeight(t *rapid.T) float64 {
	switch rapid.IntRange(0, 3).Draw(t, "wclass") {
	case 0:
		return rapid.SampledFrom([]float64{0.1, 0.3, 1.0 / 3, 2.0 / 3, 0.7, 1.1, 1e-3, 1e3 + 0.1, math.Pi}).Draw(t, "wnamed")
	case 1:
		return float64(rapid.IntRange(2, 100000).Draw(t, "wint"))
	default:
		return gen.LogUniform(1e-9, 1e9).Draw(t, "wlog")
	}
}

func ulpClose(got, want float64, ulps float64) bool {
	if got == want {
		return true
	}
	return math.Abs(got-want) <= ulps*0x1p-52*math.Abs(want)
}

// arbBin is the single contribution a bin received: c (k unit adds or one weighted add) made after `from` reweightings.
type arbBin struct {
	c    float64
	unit bool
	from int
}

func (b arbBin) scaled(fs []float64) float64 {
	c := b.c
	for _, f := range fs[b.from:] {
		c *= f
	}
	return c
}

// expectScaled folds the expected content for collapsing kinds; terms counts the contributions behind each bin.
func expectScaled(kind gen.StoreKind, content map[int]arbBin, fs []float64) (want map[int]float64, terms map[int]int, total float64) {
	want, terms = map[int]float64{}, map[int]int{}
	idx := make([]int, 0, len(content))
	for i := range content {
		idx = append(idx, i)
	}
	sort.Ints(idx)
	edge := func(i int) int { return i }
	if kind.Collapsing() && len(idx) > 0 {
		mn, mx := idx[0], idx[len(idx)-1]
		if kind.Lowest() {
			e := mx - kind.N + 1
			edge = func(i int) int {
				if i < e {
					return e
				}
				return i
			}
		} else {
			e := mn + kind.N - 1
			edge = func(i int) int {
				if i > e {
					return e
				}
				return i
			}
		}
	}
	for _, i := range idx {
		x := content[i].scaled(fs)
		want[edge(i)] += x
		terms[edge(i)]++
		total += x
	}
	return
}

func checkStoreScaled(kind gen.StoreKind, s store.Store, content map[int]arbBin, fs []float64) string {
	want, terms, total := expectScaled(kind, content, fs)
	got := map[int]float64{}
	dup := ""
	s.ForEach(func(i int, c float64) bool {
		if _, ok := got[i]; ok {
			dup = fmt.Sprintf("index %d reported twice by ForEach", i)
		}
		got[i] = c
		return false
	})
	if dup != "" {
		return dup
	}
	for i, w := range want {
		g, ok := got[i]
		if !ok {
			return fmt.Sprintf("bin %d is missing (expected weight %v)", i, w)
		}
		if !ulpClose(g, w, 4*float64(terms[i]+len(fs))) {
			return fmt.Sprintf("bin %d holds %v, expected %v (= its contribution times the later factors among %v)", i, g, w, fs)
		}
	}
	for i, g := range got {
		if _, ok := want[i]; !ok && g != 0 {
			return fmt.Sprintf("unexpected bin %d with weight %v", i, g)
		}
	}
	if tc := s.TotalCount(); !ulpClose(tc, total, 4*float64(len(content)+len(fs)+2)) {
		return fmt.Sprintf("TotalCount %v, expected %v", tc, total)
	}
	return ""
}

func TestC16_ArbitraryFactor(t *testing.T) {
	rapid.Check(t, func(t *rapid.T) {
		cl := newCase("C16")
		cl.label("arbitrary-factor")
		nf := rapid.IntRange(1, 3).Draw(t, "nfactors")
		var fs []float64
		noteFactor := func(f float64) {
			fs = append(fs, f)
			cl.labelIf(f > 1 && f < 1.2, "factor-in-(1,1.2)")
			cl.labelIf(f < 1, "w<1")
			cl.labelIf(f > 1, "w>1")
		}
		if rapid.Bool().Draw(t, "storelevel") {
			cl.label("level:store")
			kind := gen.AnyKind().Draw(t, "kind")
			cl.label("kind:" + kind.Name)
			span := rapid.SampledFrom([]int{3, 40, 100, 300}).Draw(t, "span")
			if kind.Collapsing() {
				span = kind.N + 2
				if span > 300 {
					span = 300
				}
			}
			base := gen.ClusterBase(span+2).Draw(t, "base")
			s := kind.New()
			content := map[int]arbBin{}
			cl.logf("C16/arbitrary store kind=%s base=%d", kind, base)
			for r := 0; r < nf; r++ {
				n := rapid.IntRange(1, 40).Draw(t, "adds")
				if r > 0 {
					n = rapid.IntRange(0, 8).Draw(t, "moreadds")
				}
				for j := 0; j < n; j++ {
					i := base + gen.Delta(span).Draw(t, "delta")
					b, seen := content[i]
					if rapid.Bool().Draw(t, "unit") {
						if seen && !(b.unit && b.from == len(fs)) {
							continue
						}
						s.Add(i)
						content[i] = arbBin{c: b.c + 1, unit: true, from: len(fs)}
						cl.logf("Add(%d)", i)
					} else {
						if seen {
							continue
						}
						w := arbWeight(t)
						s.AddWithCount(i, w)
						content[i] = arbBin{c: w, from: len(fs)}
						cl.logf("AddWithCount(%d,%v)", i, w)
					}
				}
				f := arbFactor(t)
				if layout.Enabled && kind.Name == "paginated" {
					if l := layout.Of(s); l.BufferLen > 0 && l.NumPages > 0 {
						cl.label("paginated-buffer-and-pages-at-reweight")
					}
				}
				cl.logf("Reweight(%v)", f)
				if err := s.Reweight(f); err != nil {
					t.Fatalf("C16/arbitrary %s: Reweight(%v) refused: %v", kind, f, err)
				}
				noteFactor(f)
				if msg := checkStoreScaled(kind, s, content, fs); msg != "" {
					t.Fatalf("C16/arbitrary %s after factors %v: %s", kind, fs, msg)
				}
			}
			cl.done(len(content) >= 2)
			return
		}
		// sketch level
		cl.label("level:sketch")
		c := drawCfg(t, cfgOpt{alphaLo: 1e-3, alphaHi: 0.3, collapsing: true, exact: 2})
		d := drawDomain(t, c.m, windowFor(c))
		prof := drawProfile(t)
		cl.label("kind:" + c.pos.Name)
		cl.labelIf(c.exact, "variant:exact")
		cl.logf("C16/arbitrary sketch %s", c)
		s := c.new()
		pos, neg := map[int]arbBin{}, map[int]arbBin{}
		var zero *arbBin
		type absorbed struct {
			v, c float64
			from int
		}
		var all []absorbed
		for r := 0; r < nf; r++ {
			n := rapid.IntRange(1, 30).Draw(t, "adds")
			if r > 0 {
				n = rapid.IntRange(0, 8).Draw(t, "moreadds")
			}
			for j := 0; j < n; j++ {
				v, _, _ := d.value(t, prof)
				unit := rapid.Bool().Draw(t, "unit")
				var side map[int]arbBin
				idx := 0
				switch {
				case v > c.m.MinIndexableValue():
					side, idx = pos, c.m.Index(v)
				case v < -c.m.MinIndexableValue():
					side, idx = neg, c.m.Index(-v)
				}
				seen := false
				var b arbBin
				if side != nil {
					b, seen = side[idx]
				} else if zero != nil {
					b, seen = *zero, true
				}
				w := 1.0
				if unit {
					if seen && !(b.unit && b.from == len(fs)) {
						continue
					}
					if err := s.Add(v); err != nil {
						t.Fatalf("C16/arbitrary %s: Add(%v): %v", c, v, err)
					}
					b = arbBin{c: b.c + 1, unit: true, from: len(fs)}
					cl.logf("Add(%v)", v)
				} else {
					if seen {
						continue
					}
					w = arbWeight(t)
					if err := s.AddWithCount(v, w); err != nil {
						t.Fatalf("C16/arbitrary %s: AddWithCount(%v,%v): %v", c, v, w, err)
					}
					b = arbBin{c: w, from: len(fs)}
					cl.logf("AddWithCount(%v,%v)", v, w)
				}
				if side != nil {
					side[idx] = b
				} else {
					zero = &b
				}
				all = append(all, absorbed{v, w, len(fs)})
			}
			f := arbFactor(t)
			cl.logf("Reweight(%v)", f)
			var mn0, mx0 float64
			if c.exact && len(all) > 0 {
				mn0, _ = s.GetMinValue()
				mx0, _ = s.GetMaxValue()
			}
			if err := s.Reweight(f); err != nil {
				t.Fatalf("C16/arbitrary %s: Reweight(%v) refused: %v", c, f, err)
			}
			noteFactor(f)
			if msg := checkStoreScaled(c.pos, s.Pos(), pos, fs); msg != "" {
				t.Fatalf("C16/arbitrary %s after factors %v: positive store: %s", c, fs, msg)
			}
			if msg := checkStoreScaled(c.neg, s.Neg(), neg, fs); msg != "" {
				t.Fatalf("C16/arbitrary %s after factors %v: negative store: %s", c, fs, msg)
			}
			wantZero := 0.0
			if zero != nil {
				wantZero = zero.scaled(fs)
			}
			if z := s.GetZeroCount(); !ulpClose(z, wantZero, 4*float64(1+len(fs))) {
				t.Fatalf("C16/arbitrary %s after factors %v: zero weight %v, expected %v", c, fs, z, wantZero)
			}
			total, sum, sumAbs := 0.0, 0.0, 0.0
			for _, a := range all {
				x := arbBin{c: a.c, from: a.from}.scaled(fs)
				total += x
				sum += a.v * x
				sumAbs += math.Abs(a.v * x)
			}
			k := float64(len(all) + len(fs) + 4)
			if got := s.GetCount(); !ulpClose(got, total, 4*k) {
				t.Fatalf("C16/arbitrary %s after factors %v: count %v, expected %v", c, fs, got, total)
			}
			if s.IsEmpty() != (len(all) == 0) {
				t.Fatalf("C16/arbitrary %s after factors %v: IsEmpty=%v with %d absorbed entries", c, fs, s.IsEmpty(), len(all))
			}
			if c.exact && len(all) > 0 {
				mn1, _ := s.GetMinValue()
				mx1, _ := s.GetMaxValue()
				if mn1 != mn0 || mx1 != mx0 {
					t.Fatalf("C16/arbitrary %s: Reweight(%v) changed the exact extremes from [%v,%v] to [%v,%v]", c, f, mn0, mx0, mn1, mx1)
				}
				if sumAbs < 1e290 {
					// absolute floor: a sum in the subnormal range has already lost relative precision when a factor
					// above one multiplies it (DESIGN 7.3 item 9)
					amp := 1.0
					for _, x := range fs {
						amp *= math.Max(1, x)
					}
					if got := s.GetSum(); !(math.Abs(got-sum) <= 8*k*0x1p-52*sumAbs+2*k*amp*5e-324) {
						t.Fatalf("C16/arbitrary %s after factors %v: exact sum %v, expected %v (sum|v*w|=%v)", c, fs, got, sum, sumAbs)
					}
				}
			}
		}
		sides := 0
		if len(pos) > 0 {
			sides++
		}
		if len(neg) > 0 {
			sides++
		}
		cl.labelIf(sides == 2, "both-sides")
		cl.labelIf(zero != nil, "zero-bucket")
		cl.done(len(pos)+len(neg) >= 2 || zero != nil)
	})
}

// TestC16_OverflowingTotal: bins whose weights are finite but whose total is not (two or more bins around 2^1022):
// reweighting by a power of two below one must still scale every bin exactly (the totals, which overflowed, are not
// compared: a running total that became +Inf stays +Inf).
func TestC16_OverflowingTotal(t *testing.T) {
	rapid.Check(t, func(t *rapid.T) {
		cl := newCase("C16")
		kind := gen.AnyKind().Draw(t, "kind")
		if kind.Collapsing() {
			kind.N = rapid.SampledFrom([]int{4, 8, 64}).Draw(t, "N")
		}
		s := kind.New()
		base := rapid.SampledFrom([]int{0, -40, 1000, math.MaxInt32 - 10, math.MinInt32 + 10}).Draw(t, "base")
		n := rapid.IntRange(2, 4).Draw(t, "bins")
		want := map[int]float64{}
		for i := 0; i < n; i++ {
			w := math.Ldexp(rapid.SampledFrom([]float64{1, 1.5, 1.25}).Draw(t, "m"), rapid.IntRange(1021, 1022).Draw(t, "e"))
			idx := base + i
			if base > 0 && base+i > math.MaxInt32 {
				idx = base - i
			}
			s.AddWithCount(idx, w)
			want[idx] += w
		}
		cl.logf("C16 overflowing total kind=%s bins=%v", kind, want)
		cl.label("overflowing-total")
		cl.label("kind:" + kind.Name)
		steps := rapid.IntRange(1, 3).Draw(t, "steps")
		for k := 0; k < steps; k++ {
			f := math.Ldexp(1, -rapid.IntRange(1, 12).Draw(t, "fexp"))
			if err := s.Reweight(f); err != nil {
				t.Fatalf("C16 overflowing total %s: Reweight(%v): %v", kind, f, err)
			}
			for i := range want {
				want[i] *= f
			}
			got := map[int]float64{}
			s.ForEach(func(i int, c float64) bool { got[i] += c; return false })
			if fmt.Sprint(got) != fmt.Sprint(want) {
				t.Fatalf("C16 overflowing total %s: after Reweight(%v) the bins are %v, expected %v", kind, f, got, want)
			}
		}
		cl.done(true)
	})
}
