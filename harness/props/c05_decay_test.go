package props

import (
	"fmt"
	"math"
	"sort"
	"testing"

	"github.com/DataDog/sketches-go/ddsketch/store"
	"pgregory.net/rapid"
	"verifharness/gen"
)

// Decay machine (C04 for the non-collapsing kinds, C05 for the collapsing ones): histories in which reweighting
// makes SOME counts underflow to exactly 0 while others survive, with an exact model of what is left.
//
// Weights live on "levels" 600 binary orders of magnitude apart: w = d * 2^(600*k), d a small integer, k in
// {-1, 0, 1}. A sum of weights of different levels is, in float64, exactly the sum of those of the highest level
// (the others are more than 500 bits below its last place), so a bin is modelled as (level, integer) and additions of
// a lower level are absorbed. Reweight(2^-600) moves every level down by one; what was on level -1 becomes d*2^-1200,
// which is 0 in float64 - exactly, no subnormal is ever produced. Reweight(2^600) moves everything up (only offered
// when nothing is on level 1).
//
// The model of a collapsing store is a mirror of the documented behaviour, not of the final content: weight below the
// collapsing edge is folded when it arrives and stays folded; a reweighting that empties bins at either end of the
// index range ends the collapsed state (there is room again); a store left with nothing is a new store.

type lv struct {
	k int   // level
	d int64 // integer weight on that level
}

func (a lv) plus(b lv) lv {
	switch {
	case a.d == 0:
		return b
	case b.d == 0 || b.k < a.k:
		return a
	case b.k > a.k:
		return b
	}
	return lv{a.k, a.d + b.d}
}

func (a lv) float() float64 { return math.Ldexp(float64(a.d), 600*a.k) }

type decayModel struct {
	kind      gen.StoreKind
	bins      map[int]lv
	collapsed bool
}

func newDecayModel(k gen.StoreKind) *decayModel { return &decayModel{kind: k, bins: map[int]lv{}} }

func (m *decayModel) minmax() (int, int, bool) {
	if len(m.bins) == 0 {
		return 0, 0, false
	}
	lo, hi := math.MaxInt, math.MinInt
	for i := range m.bins {
		lo, hi = min(lo, i), max(hi, i)
	}
	return lo, hi, true
}

func (m *decayModel) add(idx int, w lv) {
	if w.d == 0 {
		return
	}
	if !m.kind.Collapsing() {
		m.bins[idx] = m.bins[idx].plus(w)
		return
	}
	lo, hi, ok := m.minmax()
	n := m.kind.N
	if !ok {
		m.bins[idx] = w
		return
	}
	if m.kind.Lowest() {
		if idx < lo && m.collapsed {
			idx = lo
		} else if nhi := max(hi, idx); nhi-min(lo, idx)+1 > n {
			edge := nhi - n + 1
			m.foldBelow(edge)
			m.collapsed = true
			idx = max(idx, edge)
		}
	} else {
		if idx > hi && m.collapsed {
			idx = hi
		} else if nlo := min(lo, idx); max(hi, idx)-nlo+1 > n {
			edge := nlo + n - 1
			m.foldAbove(edge)
			m.collapsed = true
			idx = min(idx, edge)
		}
	}
	m.bins[idx] = m.bins[idx].plus(w)
}

func (m *decayModel) foldBelow(edge int) {
	acc := lv{}
	for i, w := range m.bins {
		if i < edge {
			acc = acc.plus(w)
			delete(m.bins, i)
		}
	}
	if acc.d != 0 {
		m.bins[edge] = m.bins[edge].plus(acc)
	}
}

func (m *decayModel) foldAbove(edge int) {
	acc := lv{}
	for i, w := range m.bins {
		if i > edge {
			acc = acc.plus(w)
			delete(m.bins, i)
		}
	}
	if acc.d != 0 {
		m.bins[edge] = m.bins[edge].plus(acc)
	}
}

func (m *decayModel) maxLevel() int {
	k := -2
	for _, w := range m.bins {
		k = max(k, w.k)
	}
	return k
}

func (m *decayModel) shift(by int) {
	lo0, hi0, _ := m.minmax()
	for i, w := range m.bins {
		w.k += by
		if w.k < -1 {
			delete(m.bins, i)
		} else {
			m.bins[i] = w
		}
	}
	lo1, hi1, ok := m.minmax()
	if !ok || lo1 != lo0 || hi1 != hi0 {
		m.collapsed = false
	}
}

func (m *decayModel) clear() { m.bins, m.collapsed = map[int]lv{}, false }

func (m *decayModel) copy() *decayModel {
	c := &decayModel{kind: m.kind, bins: map[int]lv{}, collapsed: m.collapsed}
	for i, w := range m.bins {
		c.bins[i] = w
	}
	return c
}

func (m *decayModel) sorted() []int {
	var ks []int
	for i := range m.bins {
		ks = append(ks, i)
	}
	sort.Ints(ks)
	return ks
}

// compare checks every observer of the store against the model.
func (m *decayModel) compare(s store.Store) string {
	got := map[int]float64{}
	dup := ""
	s.ForEach(func(i int, c float64) bool {
		if _, ok := got[i]; ok {
			dup = fmt.Sprintf("iteration yields bin %d twice", i)
		}
		got[i] = c
		return false
	})
	if dup != "" {
		return dup
	}
	for i, w := range m.bins {
		if g, ok := got[i]; !ok || g != w.float() {
			return fmt.Sprintf("bin %d: got %v (present=%v), want %v; store bins %v, model %v", i, g, ok, w.float(), got, m.describe())
		}
	}
	for i, g := range got {
		if _, ok := m.bins[i]; !ok {
			return fmt.Sprintf("bin %d holds %v, the model has nothing there; store bins %v, model %v", i, g, got, m.describe())
		}
	}
	var fromChan []int
	for b := range s.Bins() {
		fromChan = append(fromChan, b.Index())
		if w, ok := m.bins[b.Index()]; !ok || w.float() != b.Count() {
			return fmt.Sprintf("Bins() yields (%d,%v), model %v", b.Index(), b.Count(), m.describe())
		}
	}
	if ks := m.sorted(); fmt.Sprint(ks) != fmt.Sprint(fromChan) && !(len(ks) == 0 && len(fromChan) == 0) {
		return fmt.Sprintf("Bins() yields indexes %v, want %v", fromChan, ks)
	}
	lo, hi, ok := m.minmax()
	if s.IsEmpty() != !ok {
		return fmt.Sprintf("IsEmpty()=%v, model has %d bins (TotalCount %v)", s.IsEmpty(), len(m.bins), s.TotalCount())
	}
	mn, e1 := s.MinIndex()
	mx, e2 := s.MaxIndex()
	if !ok {
		if e1 == nil || e2 == nil {
			return fmt.Sprintf("MinIndex/MaxIndex of an empty store returned (%d,%v) (%d,%v)", mn, e1, mx, e2)
		}
		if tc := s.TotalCount(); tc != 0 {
			return fmt.Sprintf("TotalCount()=%v for an empty store", tc)
		}
		return ""
	}
	if e1 != nil || e2 != nil || mn != lo || mx != hi {
		return fmt.Sprintf("MinIndex/MaxIndex = (%d,%v) (%d,%v), want %d %d; model %v", mn, e1, mx, e2, lo, hi, m.describe())
	}
	// the total is the sum of the highest level present
	top := lv{}
	for _, w := range m.bins {
		top = top.plus(w)
	}
	if tc := s.TotalCount(); tc != top.float() {
		return fmt.Sprintf("TotalCount()=%v, want %v; model %v", tc, top.float(), m.describe())
	}
	if k := s.KeyAtRank(0); k != lo {
		return fmt.Sprintf("KeyAtRank(0)=%d, want the lowest index %d", k, lo)
	}
	if m.kind.Collapsing() && (len(m.bins) > m.kind.N || hi-lo+1 > m.kind.N) {
		return fmt.Sprintf("model holds %d bins over [%d,%d] with a limit of %d (harness error)", len(m.bins), lo, hi, m.kind.N)
	}
	return ""
}

func (m *decayModel) describe() string {
	out := ""
	for _, i := range m.sorted() {
		out += fmt.Sprintf("%d:%dL%d ", i, m.bins[i].d, m.bins[i].k)
	}
	return fmt.Sprintf("{%scollapsed=%v}", out, m.collapsed)
}

type decaySUT struct {
	s store.Store
	m *decayModel
}

func newDecaySUT(k gen.StoreKind) *decaySUT { return &decaySUT{s: k.New(), m: newDecayModel(k)} }

func (u *decaySUT) add(idx int, w lv, unit bool) {
	if unit && w.k == 0 && w.d == 1 {
		u.s.Add(idx)
	} else {
		u.s.AddWithCount(idx, w.float())
	}
	u.m.add(idx, w)
}

func decayKind(t *rapid.T, label string) gen.StoreKind {
	switch rapid.IntRange(0, 6).Draw(t, label) {
	case 0:
		return gen.StoreKind{Name: "dense"}
	case 1:
		return gen.StoreKind{Name: "sparse"}
	case 2:
		return gen.StoreKind{Name: "paginated"}
	case 3, 4:
		return gen.StoreKind{Name: "collow", N: rapid.SampledFrom([]int{1, 2, 3, 4, 5, 8, 16, 40}).Draw(t, label+"N")}
	default:
		return gen.StoreKind{Name: "colhigh", N: rapid.SampledFrom([]int{1, 2, 3, 4, 5, 8, 16, 40}).Draw(t, label+"N")}
	}
}

// decayTest: collapsing selects the store kinds (0 non-collapsing, 1 collapsing, 2 any); with sparseReads the store is
// looked at after one step in three only (and at the end): what a read leaves behind - a cache, a sorted buffer -
// then has to survive mutations that no other read follows.
func decayTest(t *rapid.T, prop string, collapsing int, sparseReads bool) {
	cl := newCase(prop)
	var kind gen.StoreKind
	for {
		kind = decayKind(t, "kind")
		if collapsing == 2 || kind.Collapsing() == (collapsing == 1) {
			break
		}
	}
	u := newDecaySUT(kind)
	base := rapid.SampledFrom([]int{0, 0, 100, -100, 31, -33, 1 << 20, math.MaxInt32 - 100, math.MinInt32 + 100}).Draw(t, "base")
	span := rapid.SampledFrom([]int{3, 6, 12, 40, 70}).Draw(t, "span")
	cl.logf("%s decay machine kind=%s base=%d span=%d", prop, kind, base, span)
	cl.label("decay-machine")
	cl.label("kind:" + kind.Name)
	drawIdx := func(label string) int { return base + rapid.IntRange(-span, span).Draw(t, label) }
	drawW := func(label string, maxLevel int) lv {
		k := rapid.SampledFrom([]int{-1, 0, 0, 0, 1}).Draw(t, label+"k")
		if k > maxLevel {
			k = maxLevel
		}
		return lv{k, int64(rapid.IntRange(1, 9).Draw(t, label+"d"))}
	}
	fill := func(o *decaySUT, label string) {
		for i, n := 0, rapid.IntRange(1, 6).Draw(t, label+"n"); i < n; i++ {
			o.add(drawIdx(label+"i"), drawW(label+"w", 1), rapid.Bool().Draw(t, label+"u"))
		}
		if rapid.IntRange(0, 3).Draw(t, label+"decayed") == 0 {
			_ = o.s.Reweight(0x1p-600)
			o.m.shift(-1)
		}
	}
	lostBins, uncollapsed, afterLoss := false, false, 0
	steps := rapid.IntRange(4, 40).Draw(t, "steps")
	for i := 0; i < steps; i++ {
		op := rapid.SampledFrom([]string{"add", "add", "add", "add", "burst", "down", "down", "up", "merge-same", "merge-other", "decode", "copy", "clear"}).Draw(t, "op")
		switch op {
		case "add":
			idx, w, unit := drawIdx("i"), drawW("w", 1), rapid.Bool().Draw(t, "unit")
			cl.logf("add %d %dL%d", idx, w.d, w.k)
			u.add(idx, w, unit)
		case "burst":
			idx, n := drawIdx("i"), rapid.IntRange(2, 70).Draw(t, "n")
			cl.logf("burst %d x%d", idx, n)
			for j := 0; j < n; j++ {
				u.add(idx+j%3, lv{0, 1}, true)
			}
		case "down":
			before, was := len(u.m.bins), u.m.collapsed
			cl.logf("Reweight(2^-600)")
			if err := u.s.Reweight(0x1p-600); err != nil {
				t.Fatalf("%s decay %s: Reweight(2^-600): %v", prop, kind, err)
			}
			u.m.shift(-1)
			if len(u.m.bins) < before && len(u.m.bins) > 0 {
				lostBins = true
				cl.label("decay:some-bins-vanished")
			}
			if was && !u.m.collapsed && len(u.m.bins) > 0 {
				uncollapsed = true
				cl.label("decay:collapsed-state-ended")
			}
		case "up":
			if u.m.maxLevel() > 0 {
				continue
			}
			cl.logf("Reweight(2^600)")
			if err := u.s.Reweight(0x1p600); err != nil {
				t.Fatalf("%s decay %s: Reweight(2^600): %v", prop, kind, err)
			}
			u.m.shift(1)
		case "merge-same", "merge-other", "decode":
			ok := kind
			if op != "merge-same" {
				ok = decayKind(t, "okind")
			} else if kind.Collapsing() {
				ok.N = rapid.SampledFrom([]int{kind.N, kind.N, 1, 3, 8, 40}).Draw(t, "oN")
			}
			o := newDecaySUT(ok)
			fill(o, "o")
			if op == "decode" {
				if o.m.maxLevel() < 0 || hasLevel(o.m, -1) {
					continue // weights of level -1 do not survive the (w+1)-1 transform of the encoding
				}
				b := encodeStore(o.s)
				cl.logf("decode-merge of %s %s", ok, o.m.describe())
				if err := decodeInto(u.s, b); err != nil {
					t.Fatalf("%s decay %s: decoding the encoding of %s: %v", prop, kind, ok, err)
				}
			} else {
				cl.logf("%s with %s %s", op, ok, o.m.describe())
				u.s.MergeWith(o.s)
				if msg := o.m.compare(o.s); msg != "" {
					t.Fatalf("%s decay %s: the argument of a merge changed: %s", prop, kind, msg)
				}
			}
			for _, j := range o.m.sorted() {
				u.m.add(j, o.m.bins[j])
			}
			cl.label("decay:" + op)
		case "copy":
			cl.logf("copy")
			old := u.s
			u.s = old.Copy()
			old.AddWithCount(drawIdx("ghost"), 7)
			_ = old.Reweight(0x1p-600)
		case "clear":
			cl.logf("clear")
			u.s.Clear()
			u.m.clear()
		}
		if !sparseReads || rapid.IntRange(0, 2).Draw(t, "read") == 0 {
			if msg := u.m.compare(u.s); msg != "" {
				t.Fatalf("%s decay %s after %s: %s", prop, kind, op, msg)
			}
		} else {
			cl.label("decay:step-without-read")
		}
		if lostBins {
			afterLoss++
		}
	}
	if msg := u.m.compare(u.s); msg != "" {
		t.Fatalf("%s decay %s at the end: %s", prop, kind, msg)
	}
	_ = uncollapsed
	cl.done(lostBins && afterLoss >= 2)
}

func hasLevel(m *decayModel, k int) bool {
	for _, w := range m.bins {
		if w.k == k {
			return true
		}
	}
	return false
}

func TestC04_Decay(t *testing.T) {
	rapid.Check(t, func(t *rapid.T) { decayTest(t, "C04", 0, false) })
}

func TestC05_Decay(t *testing.T) {
	rapid.Check(t, func(t *rapid.T) { decayTest(t, "C05", 1, false) })
}

// TestC14_Decay: the same histories with reads after one step in three only: a read must not leave anything behind
// that later mutations (additions, bins vanishing in a reweighting, merges) make wrong.
func TestC14_Decay(t *testing.T) {
	rapid.Check(t, func(t *rapid.T) { decayTest(t, "C14", 2, true) })
}
