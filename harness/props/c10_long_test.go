package props

import (
	"math"
	"math/big"
	"testing"

	"github.com/DataDog/sketches-go/ddsketch"
	"github.com/DataDog/sketches-go/ddsketch/mapping"
	"github.com/DataDog/sketches-go/ddsketch/store"
	"pgregory.net/rapid"
	"verifharness/stats"
)

// TestC10_LongChains: the exact sum must stay within a few ulps of the total of |value*weight| over LONG
// histories too (thousands of additions / merges / decode-merges into one accumulator), which is where a
// missing or mishandled compensation term shows: the per-step allowance of the state machine (TestC10) would
// absorb it. Fixed bound: 4 ulps of sum|v*w| (+ nothing per step).
func TestC10_LongChains(t *testing.T) {
	rapid.Check(t, func(t *rapid.T) {
		cl := newCase("C10")
		m, _ := mapping.NewLogarithmicMapping(0.01)
		prov := store.SparseStoreConstructor
		if rapid.Bool().Draw(t, "paginated") {
			prov = store.BufferedPaginatedStoreConstructor
		}
		acc := ddsketch.NewDDSketchWithExactSummaryStatistics(m, prov)
		mode := rapid.SampledFrom([]string{"absorb-merge", "random-merge", "absorb-add", "random-add", "decode-merge", "mixed", "add-then-copy", "add-then-copy", "chain-merge", "chain-merge"}).Draw(t, "mode")
		n := rapid.IntRange(500, 4000).Draw(t, "n")
		cl.logf("C10 long chain mode=%s n=%d", mode, n)
		cl.label("long-chain:" + mode)
		exact := new(big.Float).SetPrec(2000)
		exactAbs := new(big.Float).SetPrec(2000)
		count := 0.0
		mn, mx := math.Inf(1), math.Inf(-1)
		note := func(v, w float64) {
			term := new(big.Float).SetPrec(2000).Mul(new(big.Float).SetFloat64(v), new(big.Float).SetFloat64(w))
			exact.Add(exact, term)
			exactAbs.Add(exactAbs, term.Abs(term))
			count += w
			mn, mx = math.Min(mn, v), math.Max(mx, v)
		}
		add := func(s *ddsketch.DDSketchWithExactSummaryStatistics, v, w float64) {
			var err error
			if w == 1 {
				err = s.Add(v)
			} else {
				err = s.AddWithCount(v, w)
			}
			if err != nil {
				t.Fatalf("C10 long: add (%v,%v): %v", v, w, err)
			}
			note(v, w)
		}
		// a handful of distinct values so that the stores stay small; non-dyadic so that products round
		pool := []float64{0.1, 0.3, 1.0 / 3, 2.7, 123.456, 0.007, 999.9, -0.1, -77.7}
		base := rapid.SampledFrom([]float64{1, 1e16, 1 << 53, 0.1, 12345.678}).Draw(t, "base")
		tiny := base * rapid.SampledFrom([]float64{0x1p-53, 0x1p-54, 3 * 0x1p-55, 0x1p-60}).Draw(t, "tiny")
		add(acc, base, 1)
		small := func() *ddsketch.DDSketchWithExactSummaryStatistics {
			return ddsketch.NewDDSketchWithExactSummaryStatistics(m, prov)
		}
		for i := 0; i < n; i++ {
			step := mode
			if mode == "mixed" {
				step = []string{"absorb-merge", "random-merge", "absorb-add", "random-add", "decode-merge"}[rapid.IntRange(0, 4).Draw(t, "step")]
			}
			if mode == "add-then-copy" {
				// an addition that rounds, then the accumulator is replaced by its copy (or by its conversion to the same
				// mapping with scale 1, or by an encode/decode round trip): whatever the copy forgets is lost for good
				if i%2 == 0 {
					step = "absorb-add"
				} else {
					step = "random-add"
				}
			}
			if mode == "chain-merge" {
				// an addition that rounds, then the accumulator - with everything its compensation term carries - is
				// merged into a fresh sketch that takes its place: the argument of the merge is the one with the long
				// history. (The receiver is empty on purpose: compensated summation cannot recover the rounding error of
				// adding a term larger than the running sum, so that merging a long history into a short non-empty one
				// legitimately costs up to an ulp each time - the per-step allowance of TestC10 covers that.)
				if i%2 == 0 || rapid.Bool().Draw(t, "absorb") {
					step = "absorb-add"
				} else {
					step = "random-add"
				}
				next := small()
				if err := next.MergeWith(acc); err != nil {
					t.Fatalf("C10 long: MergeWith: %v", err)
				}
				acc = next
			}
			if mode == "add-then-copy" || (mode == "mixed" && rapid.IntRange(0, 3).Draw(t, "copystep") == 0) {
				switch rapid.IntRange(0, 2).Draw(t, "copykind") {
				case 0:
					acc = acc.Copy()
				case 1:
					acc = acc.ChangeMapping(m, prov, 1)
				default:
					old := acc
					acc = old.Copy()
					_ = old.Add(1e9) // the original lives on and changes: the copy must not notice
				}
				cl.label("long-chain:copies")
			}
			switch step {
			case "absorb-add":
				add(acc, tiny, 1)
			case "random-add":
				add(acc, pool[rapid.IntRange(0, len(pool)-1).Draw(t, "v")], float64(rapid.IntRange(1, 64).Draw(t, "w"))/8)
			case "absorb-merge", "random-merge", "decode-merge":
				o := small()
				if step == "absorb-merge" {
					add(o, tiny, 1)
				} else {
					for j := 0; j < rapid.IntRange(1, 3).Draw(t, "k"); j++ {
						add(o, pool[rapid.IntRange(0, len(pool)-1).Draw(t, "v")], float64(rapid.IntRange(1, 64).Draw(t, "w"))/8)
					}
				}
				if step == "decode-merge" {
					var b []byte
					o.Encode(&b, true)
					if err := acc.DecodeAndMergeWith(b); err != nil {
						t.Fatalf("C10 long: DecodeAndMergeWith: %v", err)
					}
				} else if err := acc.MergeWith(o); err != nil {
					t.Fatalf("C10 long: MergeWith: %v", err)
				}
			}
		}
		want, _ := exact.Float64()
		wantAbs, _ := exactAbs.Float64()
		got := acc.GetSum()
		if tol := 4 * 0x1p-52 * wantAbs; !(math.Abs(got-want) <= tol) {
			t.Fatalf("C10 long chain (%s, %d steps): exact sum %v, expected %v: error of %.1f ulps of sum|v*w|=%v (allowed 4)", mode, n, got, want, math.Abs(got-want)/(0x1p-52*wantAbs), wantAbs)
		}
		if got := acc.GetCount(); got != count {
			t.Fatalf("C10 long chain: count %v want %v", got, count)
		}
		gmin, _ := acc.GetMinValue()
		gmax, _ := acc.GetMaxValue()
		if gmin != mn || gmax != mx {
			t.Fatalf("C10 long chain: min/max (%v,%v) want (%v,%v)", gmin, gmax, mn, mx)
		}
		stats.Count("C10", "long_chain_steps", int64(n))
		cl.done(true)
	})
}

// TestC10_AbsorbedWeights: merges between sketches whose total weights are more than 53 binary orders of magnitude
// apart (old content decayed by 2^-60 meeting fresh unit weights; unit weights meeting weights of 2^54..2^70): the
// total is then not representable and is not judged, but the exact minimum and maximum are those of everything
// absorbed, whichever side is the light one, and every quantile answer lies between them.
func TestC10_AbsorbedWeights(t *testing.T) {
	rapid.Check(t, func(t *rapid.T) {
		cl := newCase("C10")
		cl.label("absorbed-weights")
		m, _ := mapping.NewLogarithmicMapping(0.01)
		prov := rapid.SampledFrom([]store.Provider{store.DenseStoreConstructor, store.SparseStoreConstructor, store.BufferedPaginatedStoreConstructor}).Draw(t, "provider")
		mk := func() *ddsketch.DDSketchWithExactSummaryStatistics { return ddsketch.NewDDSketchWithExactSummaryStatistics(m, prov) }
		mn, mx := math.Inf(1), math.Inf(-1)
		fill := func(s *ddsketch.DDSketchWithExactSummaryStatistics, w float64, label string) {
			for i, n := 0, rapid.IntRange(1, 5).Draw(t, label+"n"); i < n; i++ {
				v := rapid.SampledFrom([]float64{-3, 5, 7, 10, 0.5, -77, 1, 1000, 0}).Draw(t, label+"v")
				if err := s.AddWithCount(v, w); err != nil {
					t.Fatalf("C10 absorbed: AddWithCount(%v,%v): %v", v, w, err)
				}
				mn, mx = math.Min(mn, v), math.Max(mx, v)
			}
		}
		light, heavy := mk(), mk()
		shape := rapid.IntRange(0, 2).Draw(t, "shape")
		switch shape {
		case 0: // unit weights against huge weights
			fill(light, 1, "l")
			fill(heavy, math.Ldexp(1, rapid.IntRange(54, 70).Draw(t, "hexp")), "h")
		case 1: // decayed content against fresh unit weights
			fill(light, 1, "l")
			if err := light.Reweight(math.Ldexp(1, -rapid.IntRange(54, 80).Draw(t, "decay"))); err != nil {
				t.Fatalf("C10 absorbed: Reweight: %v", err)
			}
			fill(heavy, 1, "h")
		default: // fractional weights against large integers
			fill(light, 0.25, "l")
			fill(heavy, 0x1p53*float64(rapid.IntRange(1, 9).Draw(t, "hm")), "h")
		}
		recv, arg := light, heavy
		if rapid.Bool().Draw(t, "heavyreceives") {
			recv, arg = heavy, light
			cl.label("absorbed:receiver-heavy")
		} else {
			cl.label("absorbed:receiver-light")
		}
		cl.logf("C10 absorbed weights shape=%d", shape)
		if rapid.Bool().Draw(t, "viadecode") {
			var b []byte
			arg.Encode(&b, false)
			if err := recv.DecodeAndMergeWith(b); err != nil {
				t.Fatalf("C10 absorbed: DecodeAndMergeWith: %v", err)
			}
		} else if err := recv.MergeWith(arg); err != nil {
			t.Fatalf("C10 absorbed: MergeWith: %v", err)
		}
		gmin, e1 := recv.GetMinValue()
		gmax, e2 := recv.GetMaxValue()
		if e1 != nil || e2 != nil || gmin != mn || gmax != mx {
			t.Fatalf("C10 absorbed (shape %d): exact min/max (%v,%v) errors (%v,%v), everything absorbed spans [%v,%v]", shape, gmin, gmax, e1, e2, mn, mx)
		}
		for _, q := range []float64{0, 0.25, 0.5, 0.75, 1} {
			if y, err := recv.GetValueAtQuantile(q); err != nil || y < mn || y > mx {
				t.Fatalf("C10 absorbed: quantile %v = %v (%v), outside [%v,%v]", q, y, err, mn, mx)
			}
		}
		cl.done(true)
	})
}
