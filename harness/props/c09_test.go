package props

import (
	"bytes"
	"fmt"
	"math"
	"testing"

	"github.com/DataDog/sketches-go/ddsketch"
	"github.com/DataDog/sketches-go/ddsketch/pb/sketchpb"
	"github.com/DataDog/sketches-go/ddsketch/store"
	"google.golang.org/protobuf/proto"
	"pgregory.net/rapid"
	"verifharness/gen"
	"verifharness/model"
	"verifharness/obs"
	"verifharness/stats"
)

func init() {
	stats.Rule("C09", "rapid cases in three modes: (A) sketches built by a generated history with dyadic weights (all five store kinds as source and target, three mapping kinds with default and custom offsets, cleared-then-refilled sources); (B) sketches in which each index receives exactly one arbitrary non-negative float64 weight (bit-exactness without summation; non-collapsing targets); (C) hand-built sketchpb.DDSketch messages mixing binCounts and contiguousBinCounts (overlapping ranges, negative offsets, empty lists, nil store sub-messages). Oracle: FromProtoWithStoreProvider(Unmarshal(Marshal(ToProto()))) has an Equal mapping with identical (gamma, offset, interpolation) bits, bins == fold_target(bins of the source) with identical weight bits, zero weight bits equal (FromProto == the same with the dense provider); (C) bins == sparse + contiguous contributions, via FromProto* and via store.MergeWithProto into an empty and a non-empty store; the bytes written by the streaming EncodeProto unmarshal to a message proto.Equal to ToProto() and rebuild to the same sketch. Non-trivial: both sides non-empty or >= 3 bins; distinct by hash of the printed case.")
}

func protoRoundTrip(t *rapid.T, pb *sketchpb.DDSketch) *sketchpb.DDSketch {
	wire, err := proto.Marshal(pb)
	if err != nil {
		t.Fatalf("C09: Marshal: %v", err)
	}
	var back sketchpb.DDSketch
	if err := proto.Unmarshal(wire, &back); err != nil {
		t.Fatalf("C09: Unmarshal: %v", err)
	}
	return &back
}

func TestC09_History(t *testing.T) {
	rapid.Check(t, func(t *rapid.T) {
		cl := newCase("C09")
		sc := drawCfg(t, cfgOpt{alphaLo: 1e-3, alphaHi: 0.3, collapsing: true})
		d := drawDomain(t, sc.m, 1<<12)
		bud := model.NewBudget(gen.Quantum)
		src := buildSource(t, cl, sc, d, bud, 14, "src")
		cl.logf("C09/A %s", sc)
		cl.label("mode:A")
		cl.label("source:" + sc.pos.Name)
		cl.label("mapping:" + sc.spec.Kind)
		cl.labelIf(!sc.spec.FromAlpha, "custom-offset")
		cl.labelIf(src.kinds["clear"], "cleared-then-refilled")
		plain := src.s.Plain
		before := src.fullObs(src.s, src.k, sc)
		pb := plain.ToProto()
		back := protoRoundTrip(t, pb)
		if !proto.Equal(pb, back) {
			t.Fatalf("C09 %s: message changed through Marshal/Unmarshal", sc)
		}
		// streaming writer
		var sbuf bytes.Buffer
		plain.EncodeProto(&sbuf)
		var streamed sketchpb.DDSketch
		if err := proto.Unmarshal(sbuf.Bytes(), &streamed); err != nil {
			t.Fatalf("C09 %s: bytes of the streaming writer do not unmarshal: %v", sc, err)
		}
		if !proto.Equal(&streamed, pb) {
			t.Fatalf("C09 %s: streaming writer produced %v, ToProto() is %v", sc, &streamed, pb)
		}
		re, err := proto.Marshal(&streamed)
		if err != nil {
			t.Fatalf("C09: re-marshal: %v", err)
		}
		var again sketchpb.DDSketch
		if err := proto.Unmarshal(re, &again); err != nil || !proto.Equal(&again, pb) {
			t.Fatalf("C09 %s: canonical re-marshalling of the streamed bytes differs from ToProto()", sc)
		}
		if dd := obs.DiffSketch(src.fullObs(src.s, src.k, sc), before, src.diffOpts()); dd != "" {
			t.Fatalf("C09 %s: ToProto/EncodeProto changed the sketch: %s", sc, dd)
		}
		// rebuild with any store kind, from the in-memory message and from the streamed one
		tk := gen.AnyKind().Draw(t, "target")
		tc := skCfg{spec: sc.spec, m: sc.m, pos: tk, neg: tk}
		cl.label("target:" + tk.Name)
		for name, msg := range map[string]*sketchpb.DDSketch{"ToProto": back, "EncodeProto": &streamed} {
			rb, err := ddsketch.FromProtoWithStoreProvider(msg, tc.provider())
			if err != nil {
				t.Fatalf("C09 %s: FromProtoWithStoreProvider(%s): %v", sc, name, err)
			}
			checkRebuilt(t, "C09 "+name, sc, tc, src.k, rb, bud)
		}
		rd, err := ddsketch.FromProto(back)
		if err != nil {
			t.Fatalf("C09 %s: FromProto: %v", sc, err)
		}
		dk := gen.StoreKind{Name: "dense"}
		checkRebuilt(t, "C09 FromProto", sc, skCfg{spec: sc.spec, m: sc.m, pos: dk, neg: dk}, src.k, rd, bud)
		bins := len(src.k.expectPos(sc)) + len(src.k.expectNeg(sc))
		both := len(src.k.pos) > 0 && len(src.k.neg) > 0
		cl.labelIf(both, "both-sides")
		cl.labelIf(len(pb.PositiveValues.GetContiguousBinCounts()) > 0, "shape:contiguous")
		cl.labelIf(len(pb.PositiveValues.GetBinCounts()) > 0, "shape:sparse")
		cl.done(both || bins >= 3)
	})
}

func checkRebuilt(t *rapid.T, what string, sc, tc skCfg, sk *skModel, rb *ddsketch.DDSketch, bud *model.Budget) {
	if !rb.IndexMapping.Equals(sc.m) || !sc.m.Equals(rb.IndexMapping) {
		t.Fatalf("%s: rebuilt mapping is not Equal to the source's", what)
	}
	a, b := sc.m.ToProto(), rb.IndexMapping.ToProto()
	if !obs.FEq(a.Gamma, b.Gamma) || !obs.FEq(a.IndexOffset, b.IndexOffset) || a.Interpolation != b.Interpolation {
		t.Fatalf("%s: rebuilt mapping (%v,%v,%v) differs from (%v,%v,%v)", what, b.Gamma, b.IndexOffset, b.Interpolation, a.Gamma, a.IndexOffset, a.Interpolation)
	}
	tk := foldInto(tc, sc, sk)
	if msg := checkAgainstModel(obs.SK{Plain: rb}, tc, tk, bud); msg != "" {
		t.Fatalf("%s %s -> %s: rebuilt sketch differs from fold_target(source content): %s", what, sc, tc, msg)
	}
}

// (B) one arbitrary weight per index: bit-exactness without summation.
func TestC09_ArbitraryWeights(t *testing.T) {
	rapid.Check(t, func(t *rapid.T) {
		cl := newCase("C09")
		spec, m := buildMapping(t, 1e-3, 0.3)
		sk := gen.AnyKind().Draw(t, "srckind")
		tk := gen.NonCollapsingKind().Draw(t, "tgtkind")
		n := rapid.IntRange(1, 30).Draw(t, "n")
		dom := newDomain(m)
		base := rapid.IntRange(dom.minIdx+10, dom.maxIdx-220).Draw(t, "base")
		span := 200
		if sk.Collapsing() {
			span = sk.N - 1 // one weight per index must survive: no folding in this mode
			if n > sk.N {
				n = sk.N
			}
		}
		idx := rapid.SliceOfNDistinct(rapid.IntRange(0, span), n, n, rapid.ID[int]).Draw(t, "idx")
		cl.logf("C09/B %s src=%s tgt=%s", spec, sk, tk)
		cl.label("mode:B")
		cl.label("source:" + sk.Name)
		cl.label("target:" + tk.Name)
		ps, ns := sk.New(), sk.New()
		want := [2]map[int]float64{{}, {}}
		zero := math.Float64frombits(rapid.Uint64Range(0, 0x7fe0000000000000).Draw(t, "zerobits"))
		for _, i := range idx {
			w := math.Float64frombits(rapid.Uint64Range(1, 0x7fd0000000000000).Draw(t, "wbits"))
			if rapid.IntRange(0, 2).Draw(t, "wsmall") == 0 {
				w = rapid.Float64Range(0, 10).Draw(t, "w")
				if w == 0 {
					w = 0.1
				}
			}
			side := rapid.IntRange(0, 1).Draw(t, "side")
			if side == 0 {
				ps.AddWithCount(base+i, w)
			} else {
				ns.AddWithCount(base+i, w)
			}
			want[side][base+i] = w
			cl.logf("side %d bin %d weight %x", side, base+i, math.Float64bits(w))
		}
		s := ddsketch.NewDDSketch(m, ps, ns)
		// the zero count cannot be set through Add with arbitrary bits without summation: use one add
		_ = s.AddWithCount(0, zero)
		pb := s.ToProto()
		back := protoRoundTrip(t, pb)
		var sbuf bytes.Buffer
		s.EncodeProto(&sbuf)
		var streamed sketchpb.DDSketch
		if err := proto.Unmarshal(sbuf.Bytes(), &streamed); err != nil || !proto.Equal(&streamed, pb) {
			t.Fatalf("C09/B: streaming writer differs from ToProto() (unmarshal err %v)", err)
		}
		for name, msg := range map[string]*sketchpb.DDSketch{"ToProto": back, "EncodeProto": &streamed} {
			rb, err := ddsketch.FromProtoWithStoreProvider(msg, tk.Provider())
			if err != nil {
				t.Fatalf("C09/B %s: %v", name, err)
			}
			if !obs.FEq(rb.GetZeroCount(), zero) {
				t.Fatalf("C09/B %s: zero count %x, source %x", name, math.Float64bits(rb.GetZeroCount()), math.Float64bits(zero))
			}
			for side, st := range []store.Store{rb.GetPositiveValueStore(), rb.GetNegativeValueStore()} {
				got := map[int]float64{}
				st.ForEach(func(i int, c float64) bool { got[i] += c; return false })
				if len(got) != len(want[side]) {
					t.Fatalf("C09/B %s %s->%s side %d: %d bins rebuilt, %d in the source", name, sk, tk, side, len(got), len(want[side]))
				}
				for i, w := range want[side] {
					if g, ok := got[i]; !ok || !obs.FEq(g, w) {
						t.Fatalf("C09/B %s %s->%s side %d bin %d: weight %x, source %x", name, sk, tk, side, i, math.Float64bits(g), math.Float64bits(w))
					}
				}
			}
		}
		cl.done(len(want[0]) > 0 && len(want[1]) > 0 || n >= 3)
	})
}

// (C) hand-built messages mixing binCounts and contiguousBinCounts.
func TestC09_HandBuilt(t *testing.T) {
	rapid.Check(t, func(t *rapid.T) { handBuiltMessages(t, "C09") })
}

// TestC04_HandBuiltMessages: the same hand-built messages counted under C04 (what a store holds after MergeWithProto
// or FromProto of a message is the sum of the message's contributions, whatever zeros and runs it contains).
func TestC04_HandBuiltMessages(t *testing.T) {
	rapid.Check(t, func(t *rapid.T) { handBuiltMessages(t, "C04") })
}

func handBuiltMessages(t *rapid.T, prop string) {
	{
		cl := newCase(prop)
		spec, m := buildMapping(t, 1e-3, 0.3)
		bud := model.NewBudget(gen.Quantum)
		// indexes in the message must be indexes of the mapping
		dom := newDomain(m)
		base := rapid.IntRange(dom.minIdx+230, dom.maxIdx-230).Draw(t, "base")
		if rapid.Bool().Draw(t, "basenear0") && dom.minIdx+230 <= -100 && dom.maxIdx-230 >= 100 {
			base = rapid.IntRange(-100, 100).Draw(t, "base0")
		}
		cl.logf("C09/C %s base=%d", spec, base)
		cl.label("mode:C")
		total := 0.0
		w := func(t *rapid.T) float64 {
			c := gen.Weight(true).Draw(t, "c")
			if !bud.Fits(2*(total+c) + 8) {
				return 0
			}
			total += c
			return c
		}
		mkStore := func(t *rapid.T, tag string) (*sketchpb.Store, model.Map) {
			exp := model.Map{}
			switch rapid.IntRange(0, 5).Draw(t, tag+"shape") {
			case 0:
				cl.label("nil-store-message")
				return nil, exp
			case 1:
				cl.label("empty-store-message")
				return &sketchpb.Store{}, exp
			}
			st := &sketchpb.Store{}
			if rapid.Bool().Draw(t, tag+"sparse") {
				st.BinCounts = map[int32]float64{}
				for i := 0; i < rapid.IntRange(0, 10).Draw(t, tag+"nsparse"); i++ {
					k := int32(base + rapid.IntRange(-50, 50).Draw(t, tag+"k"))
					if _, dup := st.BinCounts[k]; dup {
						continue
					}
					c := w(t)
					st.BinCounts[k] = c
					exp.Add(int(k), c)
				}
				cl.label("shape:sparse")
			}
			if rapid.Bool().Draw(t, tag+"contig") {
				off := base + rapid.IntRange(-60, 60).Draw(t, tag+"off")
				st.ContiguousBinIndexOffset = int32(off)
				nc := rapid.IntRange(0, 40).Draw(t, tag+"ncontig")
				if rapid.IntRange(0, 3).Draw(t, tag+"longrun") == 0 {
					nc = rapid.IntRange(63, 130).Draw(t, tag+"ncontiglong") // covers at least one whole 32-index page
					cl.label("contiguous-run>=63")
				}
				for i := 0; i < nc; i++ {
					c := w(t)
					st.ContiguousBinCounts = append(st.ContiguousBinCounts, c)
					exp.Add(off+i, c)
				}
				cl.label("shape:contiguous")
				cl.labelIf(off < 0, "negative-offset")
			}
			cl.labelIf(len(st.BinCounts) > 0 && len(st.ContiguousBinCounts) > 0, "shape:both")
			return st, exp
		}
		posPb, posExp := mkStore(t, "pos")
		negPb, negExp := mkStore(t, "neg")
		zero := w(t)
		msg := &sketchpb.DDSketch{Mapping: m.ToProto(), PositiveValues: posPb, NegativeValues: negPb, ZeroCount: zero}
		cl.logf("message %v", msg)
		exp := newSkModel(m)
		exp.pos, exp.neg, exp.zero = posExp, negExp, zero
		back := protoRoundTrip(t, msg)
		tk := gen.AnyKind().Draw(t, "target")
		tc := skCfg{spec: spec, m: m, pos: tk, neg: tk}
		cl.label("target:" + tk.Name)
		rb, err := ddsketch.FromProtoWithStoreProvider(back, tc.provider())
		if err != nil {
			t.Fatalf("C09/C: FromProtoWithStoreProvider: %v", err)
		}
		if msg := checkAgainstModel(obs.SK{Plain: rb}, tc, exp, bud); msg != "" {
			t.Fatalf("C09/C -> %s: rebuilt sketch differs from sparse + contiguous contributions: %s", tk, msg)
		}
		rd, err := ddsketch.FromProto(back)
		if err != nil {
			t.Fatalf("C09/C: FromProto: %v", err)
		}
		dk := gen.StoreKind{Name: "dense"}
		if msg := checkAgainstModel(obs.SK{Plain: rd}, skCfg{spec: spec, m: m, pos: dk, neg: dk}, exp, bud); msg != "" {
			t.Fatalf("C09/C FromProto: %s", msg)
		}
		// store-level: MergeWithProto into an empty and into a non-empty store; store.FromProto
		if posPb != nil {
			e := tk.New()
			store.MergeWithProto(e, posPb)
			ex := expected(tk, posExp)
			r := ex.ProbeRanks(bud.HalfQuantum(), 5)
			if d := obs.DiffStore(obs.Store(e, r), obs.ExpectStore(ex, r)); d != "" {
				t.Fatalf("C09/C MergeWithProto into an empty %s store: %s", tk, d)
			}
			ne := tk.New()
			ne.AddWithCount(base, 2)
			ne.Add(base + 7)
			store.MergeWithProto(ne, posPb)
			mm := model.Map{base: 2, base + 7: 1}
			mm.Merge(posExp)
			ex2 := expected(tk, mm)
			r2 := ex2.ProbeRanks(bud.HalfQuantum(), 5)
			if d := obs.DiffStore(obs.Store(ne, r2), obs.ExpectStore(ex2, r2)); d != "" {
				t.Fatalf("C09/C MergeWithProto into a non-empty %s store: %s", tk, d)
			}
			fd := store.FromProto(posPb)
			r3 := posExp.ProbeRanks(bud.HalfQuantum(), 5)
			if d := obs.DiffStore(obs.Store(fd, r3), obs.ExpectStore(posExp, r3)); d != "" {
				t.Fatalf("C09/C store.FromProto: %s", d)
			}
		}
		if _, err := ddsketch.FromProto(&sketchpb.DDSketch{PositiveValues: posPb}); err == nil {
			t.Fatalf("C09/C: FromProto accepted a message without mapping")
		}
		cl.done(len(posExp) > 0 && len(negExp) > 0 || len(posExp)+len(negExp) >= 3)
	}
}

var _ = fmt.Sprintf

// TestC09_PaginatedScenarios: the protobuf forms of buffered-paginated stores in the structured states of
// TestC04_PaginatedScenarios (pages, weighted runs filling pages, unit clusters, scattered units; possibly cleared
// and rebuilt, so that pages kept for reuse lie between the ones in use): message and streamed bytes must agree and
// rebuild, into every non-collapsing store kind, exactly the content of the model.
func TestC09_PaginatedScenarios(t *testing.T) {
	rapid.Check(t, func(t *rapid.T) {
		cl := newCase("C09")
		cl.label("mode:paginated-scenario")
		cl.label("source:paginated")
		bud := model.NewBudget(gen.Quantum)
		base := rapid.SampledFrom([]int{0, 0, 32 * 1000, -32 * 1000, 7, -13}).Draw(t, "base")
		u := newSUT(gen.StoreKind{Name: "paginated"}, bud, cl)
		cycles := rapid.IntRange(1, 3).Draw(t, "cycles")
		for cy := 0; cy < cycles; cy++ {
			if cy > 0 {
				cl.logf("Clear")
				u.apply(sop{Kind: "clear"})
				cl.label("cleared-then-refilled")
			}
			for _, op := range pagScenario(t, base) {
				cl.logf("%s", op)
				if msg := u.apply(op); msg != "" {
					t.Fatalf("C09 scenario: %s", msg)
				}
			}
		}
		exp := u.exp()
		pb := u.s.ToProto()
		var buf bytes.Buffer
		u.s.EncodeProto(sketchpb.NewStoreBuilder(&buf))
		var streamed sketchpb.Store
		if err := proto.Unmarshal(buf.Bytes(), &streamed); err != nil {
			t.Fatalf("C09 scenario: streamed bytes do not unmarshal: %v", err)
		}
		if !proto.Equal(&streamed, pb) {
			t.Fatalf("C09 scenario: streaming writer wrote %v, ToProto() is %v", &streamed, pb)
		}
		wire, err := proto.Marshal(pb)
		if err != nil {
			t.Fatalf("C09 scenario: Marshal: %v", err)
		}
		var back sketchpb.Store
		if err := proto.Unmarshal(wire, &back); err != nil {
			t.Fatalf("C09 scenario: Unmarshal: %v", err)
		}
		ranks := probeRanksFor(exp, bud)
		for _, tk := range gen.NonCollapsing {
			target := tk.New()
			mergeProto(target, &back, rapid.Bool().Draw(t, "viamethod"))
			if d := obs.DiffStore(obs.Store(target, ranks), obs.ExpectStore(exp, ranks)); d != "" {
				t.Fatalf("C09 scenario: the message of a paginated store rebuilt into %s differs from the store's content %s: %s", tk, exp, d)
			}
		}
		cl.done(len(exp) >= 2)
	})
}
