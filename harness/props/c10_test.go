package props

import (
	"fmt"
	"math"
	"os"
	"testing"

	"github.com/DataDog/sketches-go/ddsketch"
	"github.com/DataDog/sketches-go/ddsketch/stat"

	"pgregory.net/rapid"
	"verifharness/gen"
	"verifharness/model"
	"verifharness/obs"
	"verifharness/stats"
)

func init() {
	stats.Rule("C10", "rapid state machine on DDSketchWithExactSummaryStatistics (three mapping kinds, all five store kinds) with a plain DDSketch twin receiving the same actions: Add, AddWithCount (dyadic weights incl. 0), rejected adds (NaN, +-Inf, beyond range, negative weight), bursts, MergeWith and DecodeAndMergeWith of generated arguments, Copy (original then mutated), Clear, Reweight, Encode/Decode round-trip, ChangeMapping (new mapping, scale in [1e-3,1e3]). Oracle after every step: count == exact sum of weights, IsEmpty <=> count == 0, min/max bitwise equal to the exact extremes (error iff empty), |sum - exact sum| <= (8+2k) ulps of sum|v*w| (k = reweight/rescale/decode/merge steps), every probe quantile inside [min,max]; while the state is dyadic-bounded (no ChangeMapping yet) the bins equal the exact model and every quantile equals clamp(plain twin's answer, min, max) exactly; after a ChangeMapping the bins are compared with the twin's within a 1e-9 relative weight tolerance. Non-trivial: >= 3 different action kinds including one of {reweight, changemapping, encdec, merge, decmerge} after the first add; distinct by hash of the operation log.")
}

var c10Kinds = []string{"add", "add", "add", "add", "burst", "bad", "badmerge", "merge", "decmerge", "copy", "clear", "reweight", "encdec", "vanish"}

// moderateDomain restricts the window to values within [1e-50, 1e50] so that unit changes keep everything far inside every mapping's range.
func moderateDomain(t *rapid.T, c skCfg) valDom {
	d := newDomain(c.m)
	lo, hi := c.m.Index(1e-50), c.m.Index(1e50)
	if lo < d.minIdx {
		lo = d.minIdx
	}
	if hi > d.maxIdx {
		hi = d.maxIdx
	}
	w := rapid.SampledFrom([]int{1, 3, 10, 100, 1000}).Draw(t, "window")
	if mw := windowFor(c); mw > 0 && w > mw {
		w = mw
	}
	if w > hi-lo+1 {
		w = hi - lo + 1
	}
	c0 := rapid.IntRange(lo, hi-w+1).Draw(t, "windowlo")
	if rapid.Bool().Draw(t, "around1") {
		c0 = c.m.Index(1) - w/2
		if c0 < lo {
			c0 = lo
		}
	}
	d.lo, d.hi = c0, c0+w-1
	d.wideLo, d.wideHi = lo, hi
	return d
}

func TestC10(t *testing.T) {
	rapid.Check(t, func(t *rapid.T) {
		cl := newCase("C10")
		c := drawCfg(t, cfgOpt{alphaLo: 1e-3, alphaHi: 0.3, collapsing: true, exact: 1})
		if rapid.IntRange(0, 3).Draw(t, "noncollapsing") != 0 && c.pos.Collapsing() {
			c.pos = gen.NonCollapsingKind().Draw(t, "pos2")
			c.neg = c.pos
		}
		pc := c
		pc.exact = false
		d := moderateDomain(t, c)
		prof := drawProfile(t)
		bud := model.NewBudget(gen.Quantum)
		e := newSkUT(c, d, bud, cl)
		p := newSkUT(pc, d, bud, newCase("scratch"))
		g := &kopGen{dom: d, prof: prof, bud: bud, kinds: c10Kinds, collapsing: true}
		cl.logf("C10 %s window=[%d,%d]", c, d.lo, d.hi)
		cl.label("mapping:" + c.spec.Kind)
		cl.label("store:" + c.pos.Name)
		dyadic := true
		changes := 0
		afterAdd := map[string]bool{}
		added := false
		check := func(t *rapid.T, what string) {
			// exact statistics against the value list
			count, mn, mx, _, _ := e.k.stats()
			if !obs.FEq(e.s.GetCount(), count) {
				t.Fatalf("C10 %s after %s: GetCount = %v, exact total weight %v", e.cfg, what, e.s.GetCount(), count)
			}
			if e.s.IsEmpty() != (count == 0) {
				t.Fatalf("C10 %s after %s: IsEmpty = %v with total weight %v", e.cfg, what, e.s.IsEmpty(), count)
			}
			gmin, e1 := e.s.GetMinValue()
			gmax, e2 := e.s.GetMaxValue()
			if count == 0 {
				if e1 == nil || e2 == nil {
					t.Fatalf("C10 %s after %s: min/max of an empty sketch returned no error", e.cfg, what)
				}
			} else {
				if e1 != nil || e2 != nil || !(gmin == mn) || !(gmax == mx) {
					t.Fatalf("C10 %s after %s: min/max = (%v,%v) errors (%v,%v), exact (%v,%v)", e.cfg, what, gmin, gmax, e1, e2, mn, mx)
				}
			}
			if msg := e.checkExactStats(); msg != "" {
				t.Fatalf("C10 %s after %s: %s", e.cfg, what, msg)
			}
			if dyadic {
				if msg := checkAgainstModel(e.s, e.cfg, e.k, bud); msg != "" {
					t.Fatalf("C10 %s after %s: %s", e.cfg, what, msg)
				}
				if msg := checkAgainstModel(p.s, p.cfg, p.k, bud); msg != "" {
					t.Fatalf("C10 plain twin %s after %s: %s", p.cfg, what, msg)
				}
			}
			if count == 0 {
				return
			}
			for _, q := range obs.DefaultQs {
				y, err := e.s.GetValueAtQuantile(q)
				if err != nil {
					t.Fatalf("C10 %s after %s: GetValueAtQuantile(%v): %v", e.cfg, what, q, err)
				}
				if y < mn || y > mx {
					t.Fatalf("C10 %s after %s: quantile %v answer %v outside the exact [min,max]=[%v,%v]", e.cfg, what, q, y, mn, mx)
				}
				if dyadic {
					py, err := p.s.GetValueAtQuantile(q)
					if err != nil {
						t.Fatalf("C10 plain twin after %s: GetValueAtQuantile(%v): %v", what, q, err)
					}
					want := math.Min(math.Max(py, mn), mx)
					if !(y == want) {
						t.Fatalf("C10 %s after %s: quantile %v answer %v, plain sketch answers %v, clamped to [%v,%v] = %v", e.cfg, what, q, y, py, mn, mx, want)
					}
				}
			}
			ys, err := e.s.GetValuesAtQuantiles(obs.DefaultQs)
			if err != nil {
				t.Fatalf("C10 %s: GetValuesAtQuantiles: %v", e.cfg, err)
			}
			for i, y := range ys {
				if y < mn || y > mx {
					t.Fatalf("C10 %s after %s: batch quantile %v answer %v outside [%v,%v]", e.cfg, what, obs.DefaultQs[i], y, mn, mx)
				}
			}
			if !dyadic {
				// bins of the exact sketch vs the plain twin, both converted by the same code: equal up to summation order
				for side, pair := range [][2]obs.StoreObs{{obs.Store(e.s.Pos(), nil), obs.Store(p.s.Pos(), nil)}, {obs.Store(e.s.Neg(), nil), obs.Store(p.s.Neg(), nil)}} {
					a, b := pair[0], pair[1]
					if len(a.Bins) != len(b.Bins) {
						t.Fatalf("C10 %s after %s: side %d: exact sketch has %d bins, plain twin %d", e.cfg, what, side, len(a.Bins), len(b.Bins))
					}
					for i := range a.Bins {
						if a.Bins[i].Index != b.Bins[i].Index || math.Abs(a.Bins[i].Count-b.Bins[i].Count) > 1e-9*count {
							t.Fatalf("C10 %s after %s: side %d bin %d: exact sketch %v, plain twin %v", e.cfg, what, side, i, a.Bins[i], b.Bins[i])
						}
					}
				}
				if tot := e.s.Inner().GetCount(); math.Abs(tot-count) > 1e-9*count {
					t.Fatalf("C10 %s after %s: bins hold %v (zero bucket %v, positive store %v, negative store %v), exact count %v", e.cfg, what, tot, e.s.GetZeroCount(), e.s.Pos().TotalCount(), e.s.Neg().TotalCount(), count)
				}
			}
		}
		t.Repeat(map[string]func(*rapid.T){
			"op": func(t *rapid.T) {
				op := g.drawOp(t, e)
				if !dyadic && (op.Kind == "encdec") && e.cfg.anyCollapsing() {
					t.Skip("refold of a non-tracked model")
				}
				cl.logf("%s", op)
				pop := op
				if op.Other != nil {
					oc := op.Other.cfg
					oc.exact = false
					pop.Other = &kSub{cfg: oc, ops: op.Other.ops}
				}
				if msg := e.apply(op); msg != "" {
					t.Fatalf("C10 %s after %s: %s", e.cfg, op, msg)
				}
				if msg := p.apply(pop); msg != "" {
					t.Fatalf("C10 plain twin %s after %s: %s", p.cfg, pop, msg)
				}
				cl.label("op:" + op.Kind)
				if op.Kind == "add" || op.Kind == "addw" || op.Kind == "burst" {
					added = true
				} else if added {
					afterAdd[op.Kind] = true
				}
				check(t, op.String())
			},
			"underflowprobe": func(t *rapid.T) {
				// a copy reweighted until some or all bins underflow to exactly 0 (weights at or below one half of the
				// smallest float vanish, the total of several such bins may not): a sketch none of whose bins holds
				// anything is empty for the statistics too. (Only while every weight is an exact dyadic sum: after a
				// unit change the count and a bin that should be equal can differ in the last place and fall on
				// either side of the last rounding.)
				if !dyadic {
					t.Skip("non-dyadic phase")
				}
				cp := e.s.Copy()
				for _, f := range []float64{0x1p-1000, math.Ldexp(1, -74-rapid.IntRange(0, 3).Draw(t, "extra"))} {
					if err := cp.Reweight(f); err != nil {
						t.Fatalf("C10 %s: Reweight(%v) of a copy refused: %v", e.cfg, f, err)
					}
				}
				bins := 0
				cp.ForEach(func(v, w float64) bool {
					if !(w > 0) {
						t.Fatalf("C10 %s: after underflowing reweightings iteration yields (%v,%v)", e.cfg, v, w)
					}
					bins++
					return false
				})
				_, e1 := cp.GetMinValue()
				if cp.IsEmpty() != (bins == 0) || (bins == 0 && (cp.GetCount() != 0 || cp.GetSum() != 0 || e1 == nil)) {
					t.Fatalf("C10 %s: after underflowing reweightings %d bins hold weight but IsEmpty=%v count=%v sum=%v min error=%v", e.cfg, bins, cp.IsEmpty(), cp.GetCount(), cp.GetSum(), e1)
				}
				if bins == 0 && !e.s.IsEmpty() {
					e.cl.label("every-bin-underflowed")
					if err := cp.Add(e.safeV); err != nil {
						t.Fatalf("C10 %s: Add(%v): %v", e.cfg, e.safeV, err)
					}
					mn, _ := cp.GetMinValue()
					mx, _ := cp.GetMaxValue()
					if mn != e.safeV || mx != e.safeV || cp.GetCount() != 1 || cp.GetSum() != e.safeV {
						t.Fatalf("C10 %s: a sketch whose bins all underflowed, then Add(%v): min=%v max=%v count=%v sum=%v", e.cfg, e.safeV, mn, mx, cp.GetCount(), cp.GetSum())
					}
				}
			},
			"fromdata": func(t *rapid.T) {
				// rebuild the exact sketch from its plain part and its four statistics (public constructors)
				count, sum := e.s.GetCount(), e.s.GetSum()
				mn, mx := math.Inf(1), math.Inf(-1)
				if count != 0 {
					mn, _ = e.s.GetMinValue()
					mx, _ = e.s.GetMaxValue()
				}
				st, err := stat.NewSummaryStatisticsFromData(count, sum, mn, mx)
				if err != nil {
					t.Fatalf("C10 %s: NewSummaryStatisticsFromData(%v,%v,%v,%v) refused the sketch's own statistics: %v", e.cfg, count, sum, mn, mx, err)
				}
				ns, err := ddsketch.NewDDSketchWithExactSummaryStatisticsFromData(e.s.Inner().Copy(), st)
				if err != nil {
					t.Fatalf("C10 %s: NewDDSketchWithExactSummaryStatisticsFromData refused matching data: %v", e.cfg, err)
				}
				cl.logf("rebuild from data")
				e.s = obs.SK{Exact: ns}
				e.inex++
				cl.label("op:fromdata")
				check(t, "rebuilding from data")
			},
			"changemapping": func(t *rapid.T) {
				if changes >= 3 || e.cfg.anyCollapsing() {
					t.Skip("enough unit changes")
				}
				spec2, m2 := buildMapping(t, 1e-2, 0.3)
				scale := gen.LogUniform(1e-3, 1e3).Draw(t, "scale")
				if rapid.IntRange(0, 3).Draw(t, "nicescale") == 0 {
					scale = rapid.SampledFrom([]float64{1, 2, 0.5, 10, 0.001, 1000}).Draw(t, "scale2")
				}
				kind := gen.NonCollapsingKind().Draw(t, "targetkind")
				cl.logf("ChangeMapping(%s, %s, %v)", spec2, kind, scale)
				srcBefore := e.fullObs(e.s, e.k, e.cfg)
				if os.Getenv("C10DEBUG") != "" {
					e.s.ForEach(func(v, c float64) bool {
						fmt.Printf("DEBUG src bin %v (index %d) weight %v\n", v, e.cfg.m.Index(v), c)
						return false
					})
					fmt.Printf("DEBUG src mapping %s -> %s scale %v\n", e.cfg.spec, spec2, scale)
				}
				ne := e.s.ChangeMapping(m2, kind.Provider(), scale)
				if os.Getenv("C10DEBUG") != "" {
					ne.ForEach(func(v, c float64) bool { fmt.Printf("DEBUG res bin %v weight %v\n", v, c); return false })
				}
				np := p.s.ChangeMapping(m2, kind.Provider(), scale)
				// source and result must be independent objects, whatever the scale: mutate the source, then the
				// result must still report what it reported; the reverse direction is checked with a second conversion
				snap := func(s obs.SK) [5]float64 {
					mn, _ := s.GetMinValue()
					mx, _ := s.GetMaxValue()
					return [5]float64{s.GetCount(), s.GetSum(), mn, mx, s.GetZeroCount()}
				}
				same := func(a, b [5]float64) bool {
					for i := range a {
						if !(a[i] == b[i] || a[i] != a[i] && b[i] != b[i]) {
							return false
						}
					}
					return true
				}
				if dyadic {
					if dd := obs.DiffSketch(e.fullObs(e.s, e.k, e.cfg), srcBefore, obs.DiffOpts{}); dd != "" {
						t.Fatalf("C10 %s: ChangeMapping changed its receiver: %s", e.cfg, dd)
					}
				}
				probe := e.s.ChangeMapping(m2, kind.Provider(), scale)
				srcSnap, probeSnap := snap(e.s), snap(probe)
				_ = probe.AddWithCount(e.safeV*scale, 3)
				_ = probe.Add(-e.safeV * scale)
				probe.Clear()
				if got := snap(e.s); !same(got, srcSnap) {
					t.Fatalf("C10 %s: operating on the result of ChangeMapping(scale=%v) changed the source: (count,sum,min,max,zero) %v -> %v", e.cfg, scale, srcSnap, got)
				}
				resSnap := snap(ne)
				if !same(resSnap, probeSnap) {
					t.Fatalf("C10 %s: two conversions of the same sketch differ: %v vs %v", e.cfg, resSnap, probeSnap)
				}
				_ = e.s.AddWithCount(e.safeV, 5)
				_ = e.s.Add(-e.safeV)
				e.s.Clear()
				if got := snap(ne); !same(got, resSnap) {
					t.Fatalf("C10 %s: operating on the source after ChangeMapping(scale=%v) changed the result: (count,sum,min,max,zero) %v -> %v", e.cfg, scale, resSnap, got)
				}
				identity := scale == 1 && e.cfg.m.Equals(m2)
				e.s, p.s = ne, np
				for _, u := range []*skUT{e, p} {
					if !identity {
						u.cfg.spec, u.cfg.m = spec2, m2
						u.cfg.pos, u.cfg.neg = kind, kind
						u.k.rescale(scale)
						u.k.m = m2
						u.inex++
					}
				}
				if !identity {
					dyadic = false
					e.nonDyadic, p.nonDyadic = true, true
					changes++
					// later values are drawn around the rescaled data
					nd := newDomain(m2)
					lo, hi := m2.Index(1), m2.Index(1)
					first := true
					for _, x := range e.k.vals {
						// only values well inside every mapping's range steer the window (sub-minimum values that a
						// scale-up made barely trackable must not drag later adds to the very end of the range,
						// where ChangeMapping is not specified)
						if a := math.Abs(x.V); a > 1e-70 && a < 1e70 {
							i := m2.Index(a)
							if first || i < lo {
								lo = i
							}
							if first || i > hi {
								hi = i
							}
							first = false
						}
					}
					if hi-lo > 1<<13 {
						hi = lo + 1<<13
					}
					nd.lo, nd.hi = lo, hi
					// (operations that reach beyond the window - spreads in merge arguments - stay within 1e-50..1e50 too)
					nd.wideLo, nd.wideHi = max(m2.Index(1e-50), nd.minIdx), min(m2.Index(1e50), nd.maxIdx)
					g.dom = nd
					e.safeV, p.safeV = nd.clamp(m2.Value(lo)), nd.clamp(m2.Value(lo))
					cl.label("op:changemapping")
					if added {
						afterAdd["changemapping"] = true
					}
				} else {
					cl.label("op:changemapping-identity")
				}
				check(t, "ChangeMapping")
			},
		})
		kindsSeen := 0
		for l := range cl.labels {
			if len(l) > 3 && l[:3] == "op:" {
				kindsSeen++
			}
		}
		special := afterAdd["reweight"] || afterAdd["changemapping"] || afterAdd["encdec"] || afterAdd["merge"] || afterAdd["decmerge"]
		cl.labelIf(!dyadic, "non-dyadic-phase")
		cl.label(fmt.Sprintf("changes:%d", changes))
		cl.done(kindsSeen >= 3 && special)
	})
}
