package props

import (
	"bytes"
	"fmt"
	"testing"

	enc "github.com/DataDog/sketches-go/ddsketch/encoding"
	"google.golang.org/protobuf/proto"
	"pgregory.net/rapid"
	"verifharness/gen"
	"verifharness/layout"
	"verifharness/model"
	"verifharness/obs"
)

// TestC14_ReadOrNot: two sketches of one configuration receive the same generated mutations. One of them is also
// read at generated points (every kind of read-only operation); the other one is not looked at before the end -
// neither by the test nor by its own invariant checks. If a read leaves anything behind that changes a later answer
// (a remembered sort, a cached total, a reorganised buffer), the two differ at the end. This is the one setting in
// which an object goes through long stretches of mutations without any read in between.

var c14TwinMut = []string{"add", "add", "add", "add", "burst", "merge", "decmerge", "deczeros", "clear", "reweight", "reweight", "copy"}

func TestC14_ReadOrNot(t *testing.T) {
	rapid.Check(t, func(t *rapid.T) {
		cl := newCase("C14")
		cl.label("level:twin")
		spec, m := buildMapping(t, 1e-3, 0.3)
		exact := rapid.Bool().Draw(t, "exact")
		c := skCfg{spec: spec, m: m, exact: exact, pos: gen.AnyKind().Draw(t, "pos"), neg: gen.AnyKind().Draw(t, "neg")}
		if rapid.Bool().Draw(t, "paginated") {
			c.pos = gen.StoreKind{Name: "paginated"}
		}
		if exact {
			c.neg = c.pos
		}
		bud := model.NewBudget(gen.Quantum)
		d := drawDomain(t, m, 1<<12)
		prof := drawProfile(t)
		a := newSkUT(c, d, bud, cl)                 // read now and then
		b := newSkUT(c, d, bud, newCase("scratch")) // never read before the end
		g := &kopGen{dom: d, prof: prof, bud: bud, kinds: c14TwinMut, collapsing: true}
		cl.logf("C14 read-or-not %s", c)
		cl.label("kind:" + c.pos.Name)
		cl.labelIf(exact, "variant:exact")
		n := rapid.IntRange(2, 30).Draw(t, "steps")
		reads, mutAfterRead, readBuffered := 0, 0, false
		lastReadBufLen := 0 // (layout hook) length of the positive store's buffer at the last read
		for i := 0; i < n; i++ {
			if rapid.IntRange(0, 3).Draw(t, "doread") == 0 {
				kind := rapid.SampledFrom([]string{"observe", "quantile", "foreach-stop", "toproto", "encodeproto", "encode", "copy", "merge-argument", "changemapping", "store-reads", "sum"}).Draw(t, "read")
				cl.logf("read %s", kind)
				cl.label("read:" + kind)
				if layout.Enabled && (layout.Of(a.s.Pos()).BufferLen > 0 || layout.Of(a.s.Neg()).BufferLen > 0) {
					readBuffered = true
				}
				if layout.Enabled {
					lastReadBufLen = layout.Of(a.s.Pos()).BufferLen
				}
				u := a
				switch kind {
				case "observe":
					_ = u.fullObs(u.s, u.k, u.cfg)
				case "quantile":
					_, _ = u.s.GetValueAtQuantile(rapid.Float64Range(0, 1).Draw(t, "q"))
				case "sum":
					_ = u.s.GetSum()
					_, _ = u.s.GetMinValue()
					_, _ = u.s.GetMaxValue()
				case "foreach-stop":
					k, cnt := rapid.IntRange(1, 5).Draw(t, "stopAt"), 0
					u.s.ForEach(func(v, w float64) bool { cnt++; return cnt >= k })
				case "toproto":
					if _, err := proto.Marshal(u.s.Inner().ToProto()); err != nil {
						t.Fatalf("C14: Marshal(ToProto()): %v", err)
					}
				case "encodeproto":
					var buf bytes.Buffer
					u.s.Inner().EncodeProto(&buf)
				case "encode":
					var bb []byte
					u.s.Encode(&bb, rapid.Bool().Draw(t, "omit"))
				case "copy":
					cp := u.s.Copy()
					_ = cp.Add(u.safeV)
					cp.Clear()
				case "merge-argument":
					r := c.new()
					if err := r.MergeWith(u.s); err != nil {
						t.Fatalf("C14: MergeWith refused: %v", err)
					}
					// a receiver of another kind walks the argument through its iteration
					oc := c
					oc.pos, oc.neg = gen.StoreKind{Name: "sparse"}, gen.StoreKind{Name: "sparse"}
					r2 := oc.new()
					if err := r2.MergeWith(u.s); err != nil {
						t.Fatalf("C14: MergeWith refused: %v", err)
					}
				case "changemapping":
					ok := true
					for _, x := range u.k.vals {
						if v := abs(x.V); v != 0 && (v < 1e-100 || v > 1e100) {
							ok = false
						}
					}
					if ok {
						_, m2 := buildMapping(t, 1e-2, 0.3)
						_ = u.s.ChangeMapping(m2, gen.StoreKind{Name: "sparse"}.Provider(), 1.37)
					}
				case "store-reads":
					for _, st := range storesOf(u.s) {
						for range st.Bins() {
						}
						_ = st.KeyAtRank(rapid.Float64Range(-1, 50).Draw(t, "rank"))
						_ = st.ToProto()
						var bb []byte
						st.Encode(&bb, enc.FlagTypePositiveStore)
						_, _ = st.MinIndex()
						_, _ = st.MaxIndex()
						_ = st.TotalCount()
					}
				}
				reads++
				continue
			}
			op := g.drawOp(t, a)
			cl.logf("%s", op)
			if msg := a.apply(op); msg != "" {
				t.Fatalf("C14 read-or-not %s after %s: %s", c, op, msg)
			}
			if msg := b.apply(op); msg != "" {
				t.Fatalf("C14 read-or-not %s (unread twin) after %s: %s", c, op, msg)
			}
			if reads > 0 {
				mutAfterRead++
			}
			cl.label("op:" + op.Kind)
			// a buffer that the read saw at length L, that a mutation has since emptied or shortened, is refilled to
			// exactly L with unit values in descending order and no read in between: anything a read remembers about
			// the buffer "as long as its length is the same" is wrong now
			if layout.Enabled && prof.pos && c.pos.Name == "paginated" {
				if cur := layout.Of(a.s.Pos()).BufferLen; lastReadBufLen > 1 && cur < lastReadBufLen && lastReadBufLen-cur <= 150 && bud.Fits(a.k.total()+float64(lastReadBufLen-cur)+200) && rapid.Bool().Draw(t, "refill") {
					centre := d.lo + (d.hi-d.lo)/2
					var vs []float64
					for k := lastReadBufLen - cur; k > 0; k-- {
						if i := centre + 33*k; i > d.minIdx && i < d.maxIdx {
							vs = append(vs, d.clamp(m.Value(i)))
						}
					}
					if len(vs) == lastReadBufLen-cur {
						rop := kop{Kind: "burst", Burst: vs}
						cl.logf("refill %s", rop)
						if msg := a.apply(rop); msg != "" {
							t.Fatalf("C14 read-or-not %s after %s: %s", c, rop, msg)
						}
						if msg := b.apply(rop); msg != "" {
							t.Fatalf("C14 read-or-not %s (unread twin) after %s: %s", c, rop, msg)
						}
						if layout.Of(a.s.Pos()).BufferLen == lastReadBufLen {
							cl.label("buffer-refilled-to-the-length-a-read-saw")
						}
					}
				}
			}
		}
		// the end: both are looked at for the first time together
		oa, ob := a.fullObs(a.s, a.k, c), b.fullObs(b.s, b.k, c)
		if dd := obs.DiffSketch(oa, ob, a.diffOpts()); dd != "" {
			t.Fatalf("C14 read-or-not %s: after the same %d mutations the sketch that was read %d times answers differently from the one that was never read: %s", c, n-reads, reads, dd)
		}
		if msg := b.invariant(); msg != "" {
			t.Fatalf("C14 read-or-not %s: the never-read sketch differs from its model: %s", c, msg)
		}
		if msg := a.invariant(); msg != "" {
			t.Fatalf("C14 read-or-not %s: the sketch that was read differs from its model: %s", c, msg)
		}
		cl.labelIf(readBuffered && mutAfterRead > 0, "mutation-after-read-on-buffered-paginated")
		cl.label(fmt.Sprintf("twin-reads:%d", min(reads, 3)))
		cl.done(reads > 0 && mutAfterRead >= 2)
	})
}
