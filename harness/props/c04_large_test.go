package props

import (
	"testing"

	"pgregory.net/rapid"
	"verifharness/gen"
	"verifharness/model"
	"verifharness/stats"
)

// TestC04_LargeScale / TestC05_LargeScale: few cases, each with tens of thousands of additions drawn from one
// smooth distribution (as a real workload would) so that internal structures go through many growth, shift,
// compaction and page-creation cycles and reach sizes the short random histories never reach (buffers of
// thousands of entries, arrays regrown many times, hundreds of pages). The observation is compared with the
// exact model at a few checkpoints and at the end.
func largeScale(t *rapid.T, prop string, kind gen.StoreKind) {
	cl := newCase(prop)
	bud := model.NewBudget(0) // unit and small integer weights only: 52 bits of headroom
	u := newSUT(kind, bud, cl)
	n := rapid.IntRange(3000, 60000).Draw(t, "n")
	pages := rapid.SampledFrom([]int{1, 4, 40, 200, 300, 600, 1000}).Draw(t, "pages")
	if kind.Name == "dense" || kind.Collapsing() {
		if pages > 200 {
			pages = 200
		}
	}
	width := 32 * pages
	base := gen.ClusterBase(width+70000).Draw(t, "base")
	shape := rapid.SampledFrom([]string{"uniform", "round-robin", "bell", "two-clusters", "ascending", "descending"}).Draw(t, "shape")
	tails := rapid.IntRange(0, 1200).Draw(t, "tails") // thin outliers spread far around the body
	weighted := rapid.IntRange(0, 9).Draw(t, "weighted") == 0
	cl.logf("%s large-scale kind=%s n=%d width=%d base=%d shape=%s tails=%d weighted=%v", prop, kind, n, width, base, shape, tails, weighted)
	cl.label("large-scale")
	cl.label("kind:" + kind.Name)
	cl.label("shape:" + shape)
	tailSpan := 60000
	if kind.Name == "dense" || kind.Collapsing() {
		tailSpan = 20000
	}
	checkEvery := n / rapid.IntRange(1, 4).Draw(t, "checkpoints")
	seedA := rapid.Uint64().Draw(t, "lcgseed")
	lcg := func() uint64 { // cheap deterministic stream derived from one drawn seed (drawing 60000 values through rapid would dominate the cost)
		seedA = seedA*6364136223846793005 + 1442695040888963407
		return seedA >> 11
	}
	for i := 0; i < n; i++ {
		var idx int
		switch {
		case tails > 0 && int(lcg()%uint64(n)) < tails:
			idx = base - tailSpan + int(lcg()%uint64(2*tailSpan))
		default:
			switch shape {
			case "uniform":
				idx = base + int(lcg()%uint64(width))
			case "round-robin":
				idx = base + (i*37)%width
			case "bell":
				idx = base + int((lcg()%uint64(width)+lcg()%uint64(width)+lcg()%uint64(width))/3)
			case "two-clusters":
				if lcg()%2 == 0 {
					idx = base + int(lcg()%uint64(width/4+1))
				} else {
					idx = base + width - 1 - int(lcg()%uint64(width/4+1))
				}
			case "ascending":
				idx = base + i*width/n
			default:
				idx = base + width - 1 - i*width/n
			}
		}
		if weighted && lcg()%16 == 0 {
			w := float64(1 + lcg()%7)
			u.s.AddWithCount(idx, w)
			u.m.Add(idx, w)
		} else {
			u.s.Add(idx)
			u.m.Add(idx, 1)
		}
		if (i+1)%checkEvery == 0 || i == n-1 {
			if msg := u.invariant(); msg != "" {
				t.Fatalf("%s large-scale %s: after %d additions (shape %s, width %d, tails %d) the observation differs from the model: %s", prop, kind, i+1, shape, width, tails, msg)
			}
			u.noteLayout("burst")
		}
	}
	// round-trips at scale
	enc := encodeStore(u.s)
	fresh := kind.New()
	if err := decodeInto(fresh, enc); err != nil {
		t.Fatalf("%s large-scale %s: decoding its own %d-byte encoding failed: %v", prop, kind, len(enc), err)
	}
	u.s = fresh
	if kind.Collapsing() {
		u.m = u.exp()
	}
	if msg := u.invariant(); msg != "" {
		t.Fatalf("%s large-scale %s: after an encode/decode round-trip of %d bytes: %s", prop, kind, len(enc), msg)
	}
	cp := u.s.Copy()
	u.s.Clear()
	u.s = cp
	if msg := u.invariant(); msg != "" {
		t.Fatalf("%s large-scale %s: copy differs from the model after its original was cleared: %s", prop, kind, msg)
	}
	if err := u.s.Reweight(2); err != nil {
		t.Fatalf("Reweight(2): %v", err)
	}
	u.m.Scale(2)
	if msg := u.invariant(); msg != "" {
		t.Fatalf("%s large-scale %s: after Reweight(2): %s", prop, kind, msg)
	}
	for e, c := range u.events {
		cl.label("event:" + e)
		stats.Count(prop, "event:"+e, int64(c))
	}
	stats.Count(prop, "large_scale_additions", int64(n))
	cl.done(true)
}

func TestC04_LargeScale(t *testing.T) {
	rapid.Check(t, func(t *rapid.T) { largeScale(t, "C04", gen.NonCollapsingKind().Draw(t, "kind")) })
}

func TestC05_LargeScale(t *testing.T) {
	rapid.Check(t, func(t *rapid.T) {
		k := gen.CollapsingKind().Draw(t, "kind")
		if rapid.Bool().Draw(t, "bigN") {
			k.N = rapid.SampledFrom([]int{128, 512, 1024, 2048}).Draw(t, "N")
		}
		largeScale(t, "C05", k)
	})
}
