package props

import (
	"testing"

	"pgregory.net/rapid"
	"verifharness/gen"
	"verifharness/model"
	"verifharness/stats"
)

// TestC04_LargeScale / TestC05_LargeScale: few cases, each with tens of thousands of additions drawn from one
// smooth distribution (as a real workload would) so that internal structures go through many growth, shift,
// compaction and page-creation cycles and reach sizes the short random histories never reach (buffers of
// thousands of entries, arrays regrown many times, hundreds of pages). The observation is compared with the
// exact model at a few checkpoints and at the end.
func largeScale(t *rapid.T, prop string, kind gen.StoreKind) {
	cl := newCase(prop)
	bud := model.NewBudget(0) // unit and small integer weights only: 52 bits of headroom
	u := newSUT(kind, bud, cl)
	n := rapid.IntRange(3000, 60000).Draw(t, "n")
	pages := rapid.SampledFrom([]int{1, 4, 40, 200, 300, 600, 1000}).Draw(t, "pages")
	if kind.Name == "dense" || kind.Collapsing() {
		if pages > 200 {
			pages = 200
		}
	}
	width := 32 * pages
	base := gen.ClusterBase(width+70000).Draw(t, "base")
	shape := rapid.SampledFrom([]string{"uniform", "round-robin", "bell", "two-clusters", "ascending", "descending"}).Draw(t, "shape")
	tails := rapid.IntRange(0, 1200).Draw(t, "tails") // thin outliers spread far around the body
	weighted := rapid.IntRange(0, 9).Draw(t, "weighted") == 0
	cl.logf("%s large-scale kind=%s n=%d width=%d base=%d shape=%s tails=%d weighted=%v", prop, kind, n, width, base, shape, tails, weighted)
	cl.label("large-scale")
	cl.label("kind:" + kind.Name)
	cl.label("shape:" + shape)
	tailSpan := 60000
	if kind.Name == "dense" || kind.Collapsing() {
		tailSpan = 20000
	}
	checkEvery := n / rapid.IntRange(1, 4).Draw(t, "checkpoints")
	seedA := rapid.Uint64().Draw(t, "lcgseed")
	lcg := func() uint64 { // cheap deterministic stream derived from one drawn seed (drawing 60000 values through rapid would dominate the cost)
		seedA = seedA*6364136223846793005 + 1442695040888963407
		return seedA >> 11
	}
	for i := 0; i < n; i++ {
		var idx int
		switch {
		case tails > 0 && int(lcg()%uint64(n)) < tails:
			idx = base - tailSpan + int(lcg()%uint64(2*tailSpan))
		default:
			switch shape {
			case "uniform":
				idx = base + int(lcg()%uint64(width))
			case "round-robin":
				idx = base + (i*37)%width
			case "bell":
				idx = base + int((lcg()%uint64(width)+lcg()%uint64(width)+lcg()%uint64(width))/3)
			case "two-clusters":
				if lcg()%2 == 0 {
					idx = base + int(lcg()%uint64(width/4+1))
				} else {
					idx = base + width - 1 - int(lcg()%uint64(width/4+1))
				}
			case "ascending":
				idx = base + i*width/n
			default:
				idx = base + width - 1 - i*width/n
			}
		}
		if weighted && lcg()%16 == 0 {
			w := float64(1 + lcg()%7)
			u.s.AddWithCount(idx, w)
			u.m.Add(idx, w)
		} else {
			u.s.Add(idx)
			u.m.Add(idx, 1)
		}
		if (i+1)%checkEvery == 0 || i == n-1 {
			if msg := u.invariant(); msg != "" {
				t.Fatalf("%s large-scale %s: after %d additions (shape %s, width %d, tails %d) the observation differs from the model: %s", prop, kind, i+1, shape, width, tails, msg)
			}
			u.noteLayout("burst")
		}
	}
	// merge phase: the store absorbs a series of argument stores (as an aggregator does), each built from tens to
	// hundreds of additions of the same distribution, with further additions in between and a look at the result only
	// every few merges
	if rapid.Bool().Draw(t, "mergephase") {
		nm := rapid.IntRange(3, 40).Draw(t, "merges")
		every := rapid.IntRange(1, 8).Draw(t, "mergecheck")
		// drift: the hot region moves left (or right) by a fraction of a page to a few pages per merge, so that new pages /
		// array slots keep being created beyond the current first (last) one, by whatever operation happens to trigger it
		drift, cursor, hotW := 0, base, 32*(1+int(lcg()%4))
		switch lcg() % 3 {
		case 1:
			drift = -(8 + int(lcg()%120))
			cl.label("merge-phase:drift-left")
		case 2:
			drift = 8 + int(lcg()%120)
			cursor = base + width
			cl.label("merge-phase:drift-right")
		}
		draw := func() int {
			if drift != 0 && lcg()%8 != 0 {
				return cursor + int(lcg()%uint64(hotW))
			}
			if tails > 0 && lcg()%40 == 0 {
				return base - tailSpan + int(lcg()%uint64(2*tailSpan))
			}
			switch lcg() % 3 {
			case 0:
				return base + int(lcg()%uint64(width))
			case 1:
				return base + int(lcg()%uint64(width/8+1)) // a hot region: many entries per page
			default:
				return base - 300 - int(lcg()%uint64(width/4+1)) // left of the body: pages / array slots before the first one
			}
		}
		for j := 0; j < nm; j++ {
			ak := kind
			if lcg()%3 == 0 {
				ak = gen.NonCollapsing[lcg()%3]
			}
			arg, am := ak.New(), model.Map{}
			na := 10 + int(lcg()%400)
			if lcg()%2 == 0 {
				na = 5 + int(lcg()%60) // stays entirely in a paginated argument's buffer
			}
			for i := 0; i < na; i++ {
				idx := draw()
				if lcg()%20 == 0 {
					w := float64(2 + lcg()%5)
					arg.AddWithCount(idx, w)
					am.Add(idx, w)
				} else {
					arg.Add(idx)
					am.Add(idx, 1)
				}
			}
			cursor += drift
			u.s.MergeWith(arg)
			u.m.Merge(expected(ak, am))
			if d := am.Total() - arg.TotalCount(); d != 0 {
				t.Fatalf("%s large-scale %s: MergeWith changed its %s argument's total by %v", prop, kind, ak, -d)
			}
			for i := int(lcg() % 30); i > 0; i-- {
				idx := draw()
				u.s.Add(idx)
				u.m.Add(idx, 1)
			}
			if (j+1)%every == 0 || j == nm-1 {
				if msg := u.invariant(); msg != "" {
					t.Fatalf("%s large-scale %s: after merge %d of %d (argument kind %s, %d additions) the observation differs from the model: %s", prop, kind, j+1, nm, ak, na, msg)
				}
				u.noteLayout("merge")
			}
		}
		cl.label("large-scale-merge-phase")
		stats.Count(prop, "large_scale_merges", int64(nm))
	}
	// round-trips at scale
	enc := encodeStore(u.s)
	fresh := kind.New()
	if err := decodeInto(fresh, enc); err != nil {
		t.Fatalf("%s large-scale %s: decoding its own %d-byte encoding failed: %v", prop, kind, len(enc), err)
	}
	u.s = fresh
	if kind.Collapsing() {
		u.m = u.exp()
	}
	if msg := u.invariant(); msg != "" {
		t.Fatalf("%s large-scale %s: after an encode/decode round-trip of %d bytes: %s", prop, kind, len(enc), msg)
	}
	cp := u.s.Copy()
	u.s.Clear()
	u.s = cp
	if msg := u.invariant(); msg != "" {
		t.Fatalf("%s large-scale %s: copy differs from the model after its original was cleared: %s", prop, kind, msg)
	}
	if err := u.s.Reweight(2); err != nil {
		t.Fatalf("Reweight(2): %v", err)
	}
	u.m.Scale(2)
	if msg := u.invariant(); msg != "" {
		t.Fatalf("%s large-scale %s: after Reweight(2): %s", prop, kind, msg)
	}
	for e, c := range u.events {
		cl.label("event:" + e)
		stats.Count(prop, "event:"+e, int64(c))
	}
	stats.Count(prop, "large_scale_additions", int64(n))
	cl.done(true)
}

func TestC04_LargeScale(t *testing.T) {
	rapid.Check(t, func(t *rapid.T) { largeScale(t, "C04", gen.NonCollapsingKind().Draw(t, "kind")) })
}

func TestC05_LargeScale(t *testing.T) {
	rapid.Check(t, func(t *rapid.T) {
		k := gen.CollapsingKind().Draw(t, "kind")
		if rapid.Bool().Draw(t, "bigN") {
			k.N = rapid.SampledFrom([]int{128, 512, 1024, 2048}).Draw(t, "N")
		}
		largeScale(t, "C05", k)
	})
}
