package props

import (
	"bytes"
	"fmt"
	"math"
	"testing"

	"github.com/DataDog/sketches-go/ddsketch"
	enc "github.com/DataDog/sketches-go/ddsketch/encoding"
	"github.com/DataDog/sketches-go/ddsketch/mapping"
	"github.com/DataDog/sketches-go/ddsketch/pb/sketchpb"
	"github.com/DataDog/sketches-go/ddsketch/store"
	"google.golang.org/protobuf/proto"
	"pgregory.net/rapid"
	"verifharness/gen"
	"verifharness/obs"
	"verifharness/refdec"
	"verifharness/stats"
)

func init() {
	stats.Rule("C03", "rapid cases: one mapping per case (kind in {log, linear, cubic}; built from alpha in [1e-9,0.99], or from (gamma, offset) with the accuracy in the same range and offset in {0, default, +-10, +-1e6, +-2^30, fractional}), ~70 probe values in [MinIndexableValue, MaxIndexableValue]: LowerBound(i) +- 0..4 ulps for i uniform over the index range and for the 10 lowest/highest indexes, LowerBound(i)*(1 +- 10^-u) for u uniform in [2.5,16], powers of two +- ulps, both range ends and <= 4 ulps inward, log-uniform fill; plus ordered pairs (adjacent floats, few ulps apart, adjacent bins, far apart) for monotonicity. Checked: |Value(Index(v))-v| <= (alpha+slack) v, index in int32, LowerBound(i) <= v <= LowerBound(i+1) up to slack, Index non-decreasing, RelativeAccuracy equals the configured alpha. Non-trivial: the case contains a value within 4 ulps of a bin edge, binade edge or range end (always by construction, so distinctness by hash of the printed case is the binding part).")
	stats.Rule("C19", "rapid cases: mappings as in C03; binary Encode/Decode, protobuf ToProto/Marshal/Unmarshal/FromProto and EncodeProto (streaming builder) round-trips must give a mapping that Equals the original both ways, re-serializes to identical bytes and agrees bitwise on Index/Value/LowerBound/RelativeAccuracy/Min/MaxIndexableValue at probe values and indexes; the independent parser (refdec) must read the same kind/gamma/offset from the bytes; several mappings read in a row (binary, protobuf, sketch decoder; same base/offset across kinds included) must each come back as written; Equals must be reflexive, symmetric, false across kinds and for same-kind mappings whose accuracy differs by >= 0.1% or whose offsets clearly differ, true for identical parameters. Non-trivial: non-default offset or a cross-kind / near-alpha pair; distinct by hash of the printed case.")
}

func gammaFor(kind string, alpha float64) float64 {
	r := (1 + alpha) / (1 - alpha)
	switch kind {
	case "linear":
		return math.Pow(r, math.Ln2)
	case "cubic":
		return math.Pow(r, 10*math.Ln2/7)
	}
	return r
}

func defaultOffset(kind string, gamma float64) float64 {
	if kind == "linear" {
		return 1 / math.Log2(gamma)
	}
	return 0
}

// drawAnyMapping draws a mapping as C03/C19 quantify: from alpha, or from (gamma, offset) as decoders rebuild them.
func drawAnyMapping(t *rapid.T, cl *caseLog) (gen.MapSpec, mapping.IndexMapping) {
	kind := rapid.SampledFrom(gen.MapKinds).Draw(t, "mkind")
	alpha := gen.Alpha(c03AlphaLo, 0.99).Draw(t, "alpha")
	if rapid.IntRange(0, 2).Draw(t, "fromalpha") == 0 {
		spec := gen.MapSpec{Kind: kind, FromAlpha: true, Alpha: alpha, Nominal: alpha}
		m, err := spec.Build()
		if err != nil {
			t.Fatalf("constructor refused alpha=%v: %v", alpha, err)
		}
		cl.label("built:alpha")
		return spec, m
	}
	g := gammaFor(kind, alpha)
	if rapid.Bool().Draw(t, "perturb") {
		g *= 1 + rapid.Float64Range(0, 1e-3).Draw(t, "gperturb")
	}
	if !(g > 1) {
		g = math.Nextafter(1, 2)
	}
	var off float64
	switch rapid.IntRange(0, 10).Draw(t, "offclass") {
	case 10:
		// an offset engineered (by bisection) so that a bin edge falls on the largest or the smallest indexable value, within
		// the resolution of the offset: the highest (lowest) bin is then a sliver, or the range end sits at the very top
		// (bottom) of its bin - where a bound on the range that is tight to the last ulp shows
		off0 := rapid.Float64Range(-1, 1).Draw(t, "endoff0")
		m0, err := gen.MapSpec{Kind: kind, Gamma: g, Offset: off0}.Build()
		if err != nil {
			t.Fatalf("constructor refused gamma=%v offset=%v: %v", g, off0, err)
		}
		end := m0.MaxIndexableValue()
		if rapid.Bool().Draw(t, "endmin") {
			end = gen.NextUp(m0.MinIndexableValue(), 1)
		}
		k0 := m0.Index(end)
		dlo, dhi := 0.0, 1.0
		for it := 0; it < 70 && gen.NextUp(dlo, 1) < dhi; it++ {
			mid := dlo + (dhi-dlo)/2
			mm, err := gen.MapSpec{Kind: kind, Gamma: g, Offset: off0 - mid}.Build()
			if err != nil {
				break
			}
			if mm.Index(end) == k0 {
				dlo = mid
			} else {
				dhi = mid
			}
		}
		off = off0 - rapid.SampledFrom([]float64{dlo, dhi, gen.NextUp(dlo, -1), gen.NextUp(dhi, 1), gen.NextUp(dlo, -3), gen.NextUp(dhi, 3)}).Draw(t, "endside")
		cl.label("offset:engineered-edge-at-range-end")
	case 9:
		// an offset engineered so that, for some index i0, (i0 - offset)/multiplier - what the inverse of the index
		// function is applied to - is an integer k or one of its float neighbours (the boundary between two binades of the
		// interpolated mappings; finding F7 lived one ulp below such an integer)
		mult := 1 / math.Log2(g)
		if kind == "log" {
			mult = 1 / math.Log(g)
		}
		k := float64(rapid.IntRange(-12, 12).Draw(t, "engk"))
		if rapid.IntRange(0, 3).Draw(t, "engkbig") == 0 {
			k = float64(rapid.IntRange(-900, 900).Draw(t, "engkbig2"))
		}
		tgt := gen.NextUp(k, rapid.IntRange(-2, 2).Draw(t, "engulps"))
		if k == 0 {
			tgt = rapid.SampledFrom([]float64{0, 5e-324, -5e-324, 0x1p-53, -0x1p-53, 1e-17, -1e-17, 0x1p-1074 * 4, -0x1p-60}).Draw(t, "engzero")
		}
		i0 := rapid.SampledFrom([]int{0, 0, 1, -1, 7, -300, 100000}).Draw(t, "engi0")
		d := tgt * mult
		// among d and its neighbours take one for which the division gives the target back, if any
		for _, c := range []float64{d, gen.NextUp(d, 1), gen.NextUp(d, -1), gen.NextUp(d, 2), gen.NextUp(d, -2)} {
			if c/mult == tgt {
				d = c
				break
			}
		}
		off = float64(i0) - d
		cl.hint = []int{i0 - 1, i0, i0 + 1}
		cl.label("offset:engineered-integer-boundary")
		cl.labelIf((float64(i0)-off)/mult == tgt, "offset:engineered-exact-hit")
	case 0:
		off = 0
		cl.label("offset:0")
	case 1:
		off = defaultOffset(kind, g)
		cl.label("offset:default")
	case 2:
		off = rapid.Float64Range(-10, 10).Draw(t, "off")
		cl.label("offset:small")
	case 3:
		off = float64(rapid.IntRange(-10, 10).Draw(t, "offint"))
		cl.label("offset:smallint")
	case 4:
		off = rapid.Float64Range(-1e6, 1e6).Draw(t, "off")
		cl.label("offset:1e6")
	case 5:
		off = rapid.SampledFrom([]float64{1 << 30, -(1 << 30), 1<<30 + 0.5, -(1 << 30) - 0.25, 1e9, -1e9}).Draw(t, "offbig")
		cl.label("offset:2^30")
	case 6:
		off = rapid.Float64Range(-2e9, 2e9).Draw(t, "off")
		cl.label("offset:2e9")
	case 7:
		// offsets for which the int32 index bound (not the float range) limits the indexable range
		mult, r := 1/math.Log(g), 700.0
		if kind != "log" {
			mult, r = 1/math.Log2(g), 1020.0
		}
		u := rapid.Float64Range(0, 1).Draw(t, "offu")
		if rapid.Bool().Draw(t, "offhigh") {
			off = math.MaxInt32 - u*r*mult
		} else {
			off = math.MinInt32 + u*r*mult
		}
		cl.label("offset:int32-bound")
	default:
		off = rapid.SampledFrom([]float64{0.5, -0.5, 1, -1, 0.999999, 1e-9}).Draw(t, "offfrac")
		cl.label("offset:frac")
	}
	spec := gen.MapSpec{Kind: kind, Gamma: g, Offset: off}
	m, err := spec.Build()
	if err != nil {
		t.Fatalf("constructor refused gamma=%v offset=%v: %v", g, off, err)
	}
	if !(m.MinIndexableValue() < m.MaxIndexableValue()) {
		// empty indexable range (|offset| near 2^31): rebuilt with offset 0, not skipped
		spec.Offset = 0
		m, _ = spec.Build()
		cl.label("offset:rebuilt-empty-range")
	}
	cl.label("built:gamma")
	return spec, m
}

type c03probe struct {
	v    float64
	edge bool
}

func c03Values(t *rapid.T, m mapping.IndexMapping, cl *caseLog) []float64 {
	mn, mx := m.MinIndexableValue(), m.MaxIndexableValue()
	clamp := func(v float64) float64 {
		if !(v >= mn) {
			return mn
		}
		if v > mx {
			return mx
		}
		return v
	}
	imin, imax := m.Index(mn), m.Index(mx)
	var vs []float64
	// (a) bin edges
	for j := 0; j < 24; j++ {
		var i int
		switch rapid.IntRange(0, 3).Draw(t, "iclass") {
		case 0:
			i = imin + rapid.IntRange(0, 10).Draw(t, "ilow")
		case 1:
			i = imax - rapid.IntRange(0, 10).Draw(t, "ihigh")
		default:
			i = rapid.IntRange(imin, imax).Draw(t, "i")
		}
		if i > imax {
			i = imax
		}
		if i < imin {
			i = imin
		}
		vs = append(vs, clamp(gen.NextUp(m.LowerBound(i), rapid.IntRange(-4, 4).Draw(t, "ulps"))))
	}
	cl.label("probe:bin-edge")
	// (a'') indexes a generator asked for: both edges of those bins, a few ulps and a small relative step inside
	for _, i := range cl.hint {
		if i < imin || i >= imax {
			continue
		}
		lo, hi := m.LowerBound(i), m.LowerBound(i+1)
		for _, v := range []float64{gen.NextUp(lo, 1), gen.NextUp(lo, 3), lo * (1 + 1e-9), gen.NextUp(hi, -1), gen.NextUp(hi, -3), hi * (1 - 1e-9), m.Value(i)} {
			vs = append(vs, clamp(v))
		}
	}
	// (a') the neighbourhood of bin edges at every scale between a few ulps and a fraction of a bin: edge*(1 +- 10^-u),
	// u uniform in [2.5, 16] (an error in the floor of the index computation that is not confined to the last few
	// ulps shows at these distances, far too close to the edge for a uniformly drawn value to fall there)
	for j := 0; j < 12; j++ {
		i := rapid.IntRange(imin, imax).Draw(t, "inear")
		d := math.Pow(10, -rapid.Float64Range(2.5, 16).Draw(t, "nearexp"))
		if rapid.Bool().Draw(t, "nearabove") {
			d = -d
		}
		vs = append(vs, clamp(m.LowerBound(i)*(1-d)))
	}
	cl.label("probe:bin-edge-neighbourhood")
	// (b) binade edges
	emin, emax := math.Ilogb(mn), math.Ilogb(mx)
	for j := 0; j < 10; j++ {
		e := rapid.IntRange(emin, emax).Draw(t, "binade")
		vs = append(vs, clamp(gen.NextUp(math.Ldexp(1, e), rapid.IntRange(-4, 4).Draw(t, "ulps"))))
	}
	cl.label("probe:binade-edge")
	// (c) range ends
	for k := 0; k <= 4; k++ {
		vs = append(vs, gen.NextUp(mn, k), gen.NextUp(mx, -k))
	}
	cl.label("probe:range-end")
	// (d) fill
	for j := 0; j < 12; j++ {
		u := rapid.Float64Range(math.Log(mn), math.Log(mx)).Draw(t, "fill")
		vs = append(vs, clamp(math.Exp(u)))
	}
	return vs
}

func TestC03(t *testing.T) {
	rapid.Check(t, func(t *rapid.T) {
		cl := newCase("C03")
		spec, m := drawAnyMapping(t, cl)
		cl.logf("C03 %s", spec)
		cl.label("kind:" + spec.Kind)
		alpha := m.RelativeAccuracy()
		cl.label(fmt.Sprintf("alpha:1e%d", int(math.Floor(math.Log10(alpha)))))
		if spec.FromAlpha && !(math.Abs(alpha-spec.Alpha) <= 2e-15) {
			t.Fatalf("C03 %s: RelativeAccuracy() = %v, built with %v", spec, alpha, spec.Alpha)
		}
		if !spec.FromAlpha {
			// the accuracy of a mapping built from gamma is the accuracy the same kind promises for that gamma
			var want float64
			switch spec.Kind {
			case "log":
				want = (spec.Gamma - 1) / (spec.Gamma + 1)
			case "linear":
				r := math.Pow(spec.Gamma, 1/math.Ln2)
				want = (r - 1) / (r + 1)
			case "cubic":
				r := math.Pow(spec.Gamma, 7/(10*math.Ln2))
				want = (r - 1) / (r + 1)
			}
			if !(math.Abs(alpha-want) <= 1e-9*want+1e-14) {
				t.Fatalf("C03 %s: RelativeAccuracy() = %v, the base corresponds to %v", spec, alpha, want)
			}
		}
		mn, mx := m.MinIndexableValue(), m.MaxIndexableValue()
		if !(mn > 0 && mn < mx && !math.IsInf(mx, 0)) {
			t.Fatalf("C03 %s: indexable range [%v,%v]", spec, mn, mx)
		}
		imax := m.Index(mx)
		vs := c03Values(t, m, cl)
		for _, v := range vs {
			cl.logf("v=%x", math.Float64bits(v))
			i := m.Index(v)
			if i < math.MinInt32 || i > math.MaxInt32 {
				t.Fatalf("C03 %s: Index(%v) = %d does not fit in 32 bits", spec, v, i)
			}
			sl := slack(m, v, i)
			val := m.Value(i)
			if !(math.Abs(val-v) <= (alpha+sl)*v) {
				t.Fatalf("C03 %s: v=%v Index=%d Value=%v relative error %v > alpha=%v (+slack %v)", spec, v, i, val, math.Abs(val-v)/v, alpha, sl)
			}
			lb := m.LowerBound(i)
			if !(lb*(1-sl) <= v) {
				t.Fatalf("C03 %s: v=%v is below LowerBound(Index(v)=%d)=%v", spec, v, i, lb)
			}
			if i+1 > imax {
				// the bin of the largest indexable value: its upper bound may lie beyond the largest float64 (+Inf is a
				// correct answer, NaN or a value below v is not)
				if ub := m.LowerBound(i + 1); !(v <= ub*(1+sl)) || !(lb < ub) {
					t.Fatalf("C03 %s: v=%v in the highest bin %d (lower bound %v): LowerBound(%d)=%v", spec, v, i, lb, i+1, ub)
				}
				cl.label("top-bin-upper-bound")
			} else {
				ub := m.LowerBound(i + 1)
				if !(v <= ub*(1+sl)) {
					t.Fatalf("C03 %s: v=%v is above LowerBound(Index(v)+1=%d)=%v", spec, v, i+1, ub)
				}
				if !(lb < ub) {
					t.Fatalf("C03 %s: LowerBound(%d)=%v is not below LowerBound(%d)=%v", spec, i, lb, i+1, ub)
				}
			}
		}
		// (e) ordered pairs
		pairs := 0
		check := func(v1, v2 float64, class string) {
			if !(v1 < v2) || v1 < mn || v2 > mx {
				return
			}
			pairs++
			i1, i2 := m.Index(v1), m.Index(v2)
			if i1 <= i2 {
				return
			}
			sl := slack(m, v2, i2)
			if v2 >= v1*(1+2*sl) {
				t.Fatalf("C03 %s: Index not monotone: Index(%v)=%d > Index(%v)=%d (%s)", spec, v1, i1, v2, i2, class)
			}
			lb := m.LowerBound(i1)
			if i1-i2 != 1 || math.Abs(v1-lb) > sl*lb || math.Abs(v2-lb) > sl*lb {
				t.Fatalf("C03 %s: Index inversion not explained by rounding at one edge: Index(%v)=%d > Index(%v)=%d (%s)", spec, v1, i1, v2, i2, class)
			}
		}
		for _, v := range vs {
			check(v, gen.NextUp(v, 1), "adjacent floats")
			check(gen.NextUp(v, -1), v, "adjacent floats")
			check(v, gen.NextUp(v, rapid.IntRange(2, 8).Draw(t, "pairulps")), "few ulps")
			i := m.Index(v)
			if i+1 <= imax {
				check(v, m.Value(i+1), "adjacent bins")
			}
		}
		for j := 0; j+1 < len(vs); j += 2 {
			a, b := vs[j], vs[j+1]
			if a > b {
				a, b = b, a
			}
			check(a, b, "far apart")
		}
		stats.Count("C03", "values_checked", int64(len(vs)))
		stats.Count("C03", "ordered_pairs_checked", int64(pairs))
		cl.done(true)
	})
}

// ---------------------------------------------------------------- C19

func sameBehaviour(a, b mapping.IndexMapping, values []float64, indexes []int) string {
	if !obs.FEq(a.RelativeAccuracy(), b.RelativeAccuracy()) || !obs.FEq(a.MinIndexableValue(), b.MinIndexableValue()) || !obs.FEq(a.MaxIndexableValue(), b.MaxIndexableValue()) {
		return fmt.Sprintf("accuracy/range differ: (%v,%v,%v) vs (%v,%v,%v)", a.RelativeAccuracy(), a.MinIndexableValue(), a.MaxIndexableValue(), b.RelativeAccuracy(), b.MinIndexableValue(), b.MaxIndexableValue())
	}
	for _, v := range values {
		if a.Index(v) != b.Index(v) {
			return fmt.Sprintf("Index(%v): %d vs %d", v, a.Index(v), b.Index(v))
		}
	}
	for _, i := range indexes {
		if !obs.FEq(a.Value(i), b.Value(i)) || !obs.FEq(a.LowerBound(i), b.LowerBound(i)) {
			return fmt.Sprintf("Value/LowerBound(%d): (%v,%v) vs (%v,%v)", i, a.Value(i), a.LowerBound(i), b.Value(i), b.LowerBound(i))
		}
	}
	return ""
}

var kindSub = map[string]byte{"log": refdec.SubMapLog, "linear": refdec.SubMapLinear, "cubic": refdec.SubMapCubic}
var kindInterp = map[string]sketchpb.IndexMapping_Interpolation{"log": sketchpb.IndexMapping_NONE, "linear": sketchpb.IndexMapping_LINEAR, "cubic": sketchpb.IndexMapping_CUBIC}

func TestC19(t *testing.T) {
	rapid.Check(t, func(t *rapid.T) {
		cl := newCase("C19")
		spec, m := drawAnyMapping(t, cl)
		cl.logf("C19 %s", spec)
		cl.label("kind:" + spec.Kind)
		values := c03Values(t, m, cl)
		imin, imax := m.Index(m.MinIndexableValue()), m.Index(m.MaxIndexableValue())
		indexes := []int{imin, imin + 1, imax - 1, imax, m.Index(gen.ClampPos(m, 1))}
		for j := 0; j < 10; j++ {
			indexes = append(indexes, rapid.IntRange(imin, imax).Draw(t, "probeidx"))
		}
		gamma, offset := gen.GammaOf(m)
		nontrivial := false
		if spec.FromAlpha {
			if spec.Kind == "linear" {
				nontrivial = false
			}
		} else if offset != defaultOffset(spec.Kind, gamma) {
			nontrivial = true
			cl.label("non-default-offset")
		}

		// ---- binary form
		var b []byte
		prefix := rapid.SliceOfN(rapid.Byte(), 0, 5).Draw(t, "prefix")
		b = append(b, prefix...)
		m.Encode(&b)
		if !bytes.Equal(b[:len(prefix)], prefix) || len(b) != len(prefix)+17 {
			t.Fatalf("C19 %s: Encode wrote %d bytes after a %d-byte prefix (want 17), prefix kept=%v", spec, len(b)-len(prefix), len(prefix), bytes.Equal(b[:len(prefix)], prefix))
		}
		block := b[len(prefix):]
		content, blocks, err := refdec.Parse(block)
		if err != nil || len(blocks) != 1 || len(content.Mappings) != 1 {
			t.Fatalf("C19 %s: the independent parser cannot read the mapping block % x: %v", spec, block, err)
		}
		if mi := content.Mappings[0]; mi.Sub != kindSub[spec.Kind] || !obs.FEq(mi.Gamma, gamma) || !obs.FEq(mi.Offset, offset) {
			t.Fatalf("C19 %s: wire block says (sub=%d, gamma=%v, offset=%v), mapping is (%s, %v, %v)", spec, mi.Sub, mi.Gamma, mi.Offset, spec.Kind, gamma, offset)
		}
		trailing := rapid.SliceOfN(rapid.Byte(), 0, 3).Draw(t, "trailing")
		in := append(append([]byte(nil), block...), trailing...)
		rest := in
		flag, err := enc.DecodeFlag(&rest)
		if err != nil {
			t.Fatalf("C19: DecodeFlag: %v", err)
		}
		dm, err := mapping.Decode(&rest, flag)
		if err != nil {
			t.Fatalf("C19 %s: Decode(own encoding) failed: %v", spec, err)
		}
		if !bytes.Equal(rest, trailing) {
			t.Fatalf("C19 %s: Decode consumed %d bytes of a 17-byte block", spec, len(in)-len(rest))
		}
		checkSame := func(what string, o mapping.IndexMapping) {
			if !m.Equals(o) || !o.Equals(m) {
				t.Fatalf("C19 %s: %s is not Equal to the original (m.Equals(o)=%v, o.Equals(m)=%v)", spec, what, m.Equals(o), o.Equals(m))
			}
			if d := sameBehaviour(m, o, values, indexes); d != "" {
				t.Fatalf("C19 %s: %s behaves differently: %s", spec, what, d)
			}
			var re []byte
			o.Encode(&re)
			if !bytes.Equal(re, block) {
				t.Fatalf("C19 %s: %s re-encodes to % x, original % x", spec, what, re, block)
			}
		}
		checkSame("binary round-trip", dm)
		// every strict prefix of the block is refused
		for k := 1; k < len(block); k++ {
			r := append([]byte(nil), block[:k]...)
			f, _ := enc.DecodeFlag(&r)
			if _, err := mapping.Decode(&r, f); err == nil {
				t.Fatalf("C19 %s: Decode accepted a mapping block cut at %d bytes", spec, k)
			}
		}

		// ---- protobuf forms
		pb := m.ToProto()
		if pb.Interpolation != kindInterp[spec.Kind] || !obs.FEq(pb.Gamma, gamma) || !obs.FEq(pb.IndexOffset, offset) {
			t.Fatalf("C19 %s: ToProto() = %v", spec, pb)
		}
		wire, err := proto.Marshal(pb)
		if err != nil {
			t.Fatalf("C19: Marshal: %v", err)
		}
		var back sketchpb.IndexMapping
		if err := proto.Unmarshal(wire, &back); err != nil {
			t.Fatalf("C19: Unmarshal: %v", err)
		}
		pm, err := mapping.FromProto(&back)
		if err != nil {
			t.Fatalf("C19 %s: FromProto(round-trip) failed: %v", spec, err)
		}
		checkSame("protobuf round-trip", pm)
		var sbuf bytes.Buffer
		m.EncodeProto(sketchpb.NewIndexMappingBuilder(&sbuf))
		var streamed sketchpb.IndexMapping
		if err := proto.Unmarshal(sbuf.Bytes(), &streamed); err != nil {
			t.Fatalf("C19 %s: streamed protobuf bytes do not unmarshal: %v", spec, err)
		}
		if !proto.Equal(&streamed, pb) {
			t.Fatalf("C19 %s: streamed protobuf %v differs from ToProto() %v", spec, &streamed, pb)
		}
		if _, err := mapping.FromProto(nil); err == nil {
			t.Fatalf("C19: FromProto(nil) returned no error")
		}
		// a message handed out belongs to the caller: writing into it (or recycling it as the target of an Unmarshal)
		// must not change what the mapping says of itself afterwards
		pb.Gamma, pb.IndexOffset, pb.Interpolation = pb.Gamma*2+1, pb.IndexOffset-7.5, (pb.Interpolation+1)%4
		if err := proto.Unmarshal([]byte{0x09, 0, 0, 0, 0, 0, 0, 0x10, 0x40}, pb); err != nil { // gamma = 4
			t.Fatalf("C19: Unmarshal into a recycled message: %v", err)
		}
		again := m.ToProto()
		if again.Interpolation != kindInterp[spec.Kind] || !obs.FEq(again.Gamma, gamma) || !obs.FEq(again.IndexOffset, offset) {
			t.Fatalf("C19 %s: after the caller wrote into an earlier message, ToProto() = %v", spec, again)
		}
		pm2, err := mapping.FromProto(again)
		if err != nil {
			t.Fatalf("C19 %s: FromProto(second message) failed: %v", spec, err)
		}
		checkSame("protobuf round-trip after an earlier message was modified", pm2)

		// ---- built from alpha vs from its own (gamma, offset)
		rebuilt, err := gen.MapSpec{Kind: spec.Kind, Gamma: gamma, Offset: offset}.Build()
		if err != nil {
			t.Fatalf("C19 %s: rebuilding from (gamma, offset) failed: %v", spec, err)
		}
		checkSame("mapping rebuilt from its (gamma, offset)", rebuilt)

		// ---- equality
		if !m.Equals(m) {
			t.Fatalf("C19 %s: Equals is not reflexive", spec)
		}
		symmetric := func(o mapping.IndexMapping, what string) bool {
			e1, e2 := m.Equals(o), o.Equals(m)
			if e1 != e2 {
				t.Fatalf("C19 %s: Equals is not symmetric with %s: %v vs %v", spec, what, e1, e2)
			}
			return e1
		}
		for _, k := range gen.MapKinds {
			if k == spec.Kind {
				continue
			}
			o, err := gen.MapSpec{Kind: k, Gamma: gamma, Offset: offset}.Build()
			if err == nil && symmetric(o, "other kind") {
				t.Fatalf("C19 %s: equal to a %s mapping with the same (gamma, offset)", spec, k)
			}
			nontrivial = true
			cl.label("pair:cross-kind")
		}
		alpha := m.RelativeAccuracy()
		for _, delta := range []float64{1e-3, 1e-2, 0.5, -1e-3, -1e-2, -0.5} {
			a2 := alpha * (1 + delta)
			if !(a2 > 0 && a2 < 1) {
				continue
			}
			g2 := gammaFor(spec.Kind, a2)
			o, err := gen.MapSpec{Kind: spec.Kind, Gamma: g2, Offset: offset}.Build()
			if err != nil {
				continue
			}
			if symmetric(o, "near-alpha") {
				t.Fatalf("C19 %s: equal to a same-kind mapping whose accuracy differs by %v%% (alpha %v vs %v)", spec, delta*100, alpha, a2)
			}
			nontrivial = true
			cl.label("pair:near-alpha")
		}
		for _, f := range []float64{1, 1 + 1e-15, 1 - 1e-15} {
			o, err := gen.MapSpec{Kind: spec.Kind, Gamma: gamma * f, Offset: offset}.Build()
			if err != nil {
				continue
			}
			if !symmetric(o, "same parameters") {
				t.Fatalf("C19 %s: not equal to a mapping with gamma*%v and the same offset", spec, f)
			}
		}
		// offsets around the tolerance of Equals (incl. exactly 0 against tiny non-zero ones): whatever the verdict, it
		// must be the same in both directions
		for _, o2 := range []float64{offset * (1 + 1e-13), offset * (1 - 3e-13), offset + 1e-13, offset - 5e-324, offset + 1e-12, offset + 2e-12, 1e-13, -1e-14, 5e-324, 0} {
			if o, err := (gen.MapSpec{Kind: spec.Kind, Gamma: gamma, Offset: o2}).Build(); err == nil {
				symmetric(o, fmt.Sprintf("offset %v vs %v", offset, o2))
				if z, err := (gen.MapSpec{Kind: spec.Kind, Gamma: gamma, Offset: 0}).Build(); err == nil {
					if z.Equals(o) != o.Equals(z) {
						t.Fatalf("C19 %s: Equals is not symmetric between offsets 0 and %v: %v vs %v", spec, o2, z.Equals(o), o.Equals(z))
					}
				}
				cl.label("pair:offset-near-tolerance")
			}
		}
		// pairs of bases (and of offsets) sitting exactly on a relative tolerance boundary of 1e-12: d is a small
		// multiple of 2^-52, x1 = d/1e-12 - u*d for u in [0,1], x2 = x1 + d (both in [1,2), so the sum is exact). Whether
		// such a pair is equal is the implementation's business; that the verdict is the same both ways is the property.
		for j := 0; j < 12; j++ {
			k := float64(rapid.IntRange(4504, 9007).Draw(t, "boundaryk"))
			d := k * 0x1p-52
			u := rapid.SampledFrom([]float64{0, 0.25, 0.5, 0.75, 1}).Draw(t, "boundaryu")
			x1 := d/1e-12 - u*d
			x2 := x1 + d
			if !(x1 > 1 && x2 < 2) {
				continue
			}
			a, e1 := (gen.MapSpec{Kind: spec.Kind, Gamma: x1, Offset: offset}).Build()
			b, e2 := (gen.MapSpec{Kind: spec.Kind, Gamma: x2, Offset: offset}).Build()
			if e1 == nil && e2 == nil && a.Equals(b) != b.Equals(a) {
				t.Fatalf("C19 %s: Equals is not symmetric between bases %v and %v (same offset %v): %v vs %v", spec.Kind, x1, x2, offset, a.Equals(b), b.Equals(a))
			}
			a, e1 = (gen.MapSpec{Kind: spec.Kind, Gamma: gamma, Offset: x1}).Build()
			b, e2 = (gen.MapSpec{Kind: spec.Kind, Gamma: gamma, Offset: x2}).Build()
			if e1 == nil && e2 == nil && a.Equals(b) != b.Equals(a) {
				t.Fatalf("C19 %s: Equals is not symmetric between offsets %v and %v (same base %v): %v vs %v", spec.Kind, x1, x2, gamma, a.Equals(b), b.Equals(a))
			}
			cl.label("pair:tolerance-boundary")
		}
		// bases far apart at the coarse end (accuracies that all round to 1): never equal
		for _, gs := range [][2]float64{{1e15, 1e30}, {1e13, 2e13}, {1e100, 1e200}, {3e16, 6e16}} {
			a, e1 := (gen.MapSpec{Kind: spec.Kind, Gamma: gs[0], Offset: 0}).Build()
			b, e2 := (gen.MapSpec{Kind: spec.Kind, Gamma: gs[1], Offset: 0}).Build()
			if e1 == nil && e2 == nil && (a.Equals(b) || b.Equals(a)) {
				t.Fatalf("C19 %s: mappings with bases %v and %v compare equal", spec.Kind, gs[0], gs[1])
			}
		}
		// clearly different offsets
		for _, d := range []float64{1, -1, 0.5, 1e-6 * math.Max(1, math.Abs(offset)), -offset} {
			o, err := gen.MapSpec{Kind: spec.Kind, Gamma: gamma, Offset: offset + d}.Build()
			if err != nil || offset+d == offset {
				continue
			}
			if math.Abs(d) >= 1e-6*math.Max(math.Abs(offset), math.Abs(offset+d)) && math.Abs(d) > 1e-11 {
				if symmetric(o, "other offset") {
					t.Fatalf("C19 %s: equal to a mapping whose offset differs by %v", spec, d)
				}
				cl.label("pair:offset")
			}
		}
		// ---- reading several mappings in a row: each one comes back as itself, whatever was read just before
		// (the readers are package-level functions; nothing may carry over from one call to the next)
		pool := []mapping.IndexMapping{m}
		for _, k := range gen.MapKinds {
			if k != spec.Kind {
				if o, err := (gen.MapSpec{Kind: k, Gamma: gamma, Offset: offset}).Build(); err == nil {
					pool = append(pool, o) // same base and offset, other kind
				}
			}
		}
		if o, err := (gen.MapSpec{Kind: spec.Kind, Gamma: gamma, Offset: offset + 1}).Build(); err == nil {
			pool = append(pool, o)
		}
		if o, err := (gen.MapSpec{Kind: spec.Kind, Gamma: gammaFor(spec.Kind, alpha*0.9), Offset: offset}).Build(); err == nil {
			pool = append(pool, o)
		}
		nseq := rapid.IntRange(2, 6).Draw(t, "nseq")
		for j := 0; j < nseq; j++ {
			src := pool[rapid.IntRange(0, len(pool)-1).Draw(t, "seqpick")]
			var got mapping.IndexMapping
			via := rapid.SampledFrom([]string{"binary", "binary", "proto", "sketch"}).Draw(t, "seqvia")
			switch via {
			case "binary":
				var eb []byte
				src.Encode(&eb)
				f, _ := enc.DecodeFlag(&eb)
				got, err = mapping.Decode(&eb, f)
			case "proto":
				got, err = mapping.FromProto(src.ToProto())
			default:
				sk := ddsketch.NewDDSketch(src, store.NewSparseStore(), store.NewSparseStore())
				_ = sk.Add(gen.ClampPos(src, 1))
				var eb []byte
				sk.Encode(&eb, false)
				var dsk *ddsketch.DDSketch
				dsk, err = ddsketch.DecodeDDSketch(eb, store.SparseStoreConstructor, nil)
				if err == nil {
					got = dsk.IndexMapping
				}
			}
			if err != nil {
				t.Fatalf("C19 %s: read #%d of a sequence (%s) failed: %v", spec, j, via, err)
			}
			var want, have []byte
			src.Encode(&want)
			got.Encode(&have)
			if !bytes.Equal(want, have) || !src.Equals(got) || !got.Equals(src) {
				t.Fatalf("C19 %s: read #%d of a sequence (%s): wrote % x, read back a mapping that encodes as % x (Equals=%v)", spec, j, via, want, have, src.Equals(got))
			}
			if d := sameBehaviour(src, got, values[:min(len(values), 8)], nil); d != "" {
				t.Fatalf("C19 %s: read #%d of a sequence (%s) behaves differently from what was written: %s", spec, j, via, d)
			}
		}
		cl.label("sequence-of-reads")
		cl.done(nontrivial)
	})
}

// c03AlphaLo is the smallest accuracy parameter drawn for C03/C19.
var c03AlphaLo = 1e-9
