package props

import (
	"fmt"
	"math"
	"math/big"
	"sort"
	"testing"

	"github.com/DataDog/sketches-go/ddsketch/store"
	"pgregory.net/rapid"
	"verifharness/gen"
)

// Wide-range weights: unit and small integer weights next to weights of 2^53 and far above in the same store. Totals
// are then not exactly representable and nothing can be compared bit for bit through sums, but every BIN still has a
// well-defined exact content (kept here in 400-bit arithmetic), and since all contributions are positive any order
// of floating-point accumulation stays within (number of contributions) ulps of it. So the check is per bin, relative
// to the bin's own weight: a unit weight that disappears next to a huge total is as visible as in the dyadic cases.

type wideModel map[int]*wideBin

type wideBin struct {
	w *big.Float
	n int // contributions
}

func bf(x float64) *big.Float { return new(big.Float).SetPrec(400).SetFloat64(x) }

func (m wideModel) add(i int, w float64) {
	if w == 0 {
		return
	}
	b := m[i]
	if b == nil {
		b = &wideBin{w: bf(0)}
		m[i] = b
	}
	b.w.Add(b.w, bf(w))
	b.n++
}

func (m wideModel) merge(o wideModel) {
	for i, b := range o {
		x := m[i]
		if x == nil {
			x = &wideBin{w: bf(0)}
			m[i] = x
		}
		x.w.Add(x.w, b.w)
		x.n += b.n
	}
}

func (m wideModel) scale(f float64) {
	for _, b := range m {
		b.w.Mul(b.w, bf(f))
		b.n++
	}
}

func (m wideModel) copyOf() wideModel {
	o := wideModel{}
	for i, b := range m {
		o[i] = &wideBin{w: new(big.Float).Copy(b.w), n: b.n}
	}
	return o
}

// folded returns the content as a store of this kind holds it.
func (m wideModel) folded(k gen.StoreKind) wideModel {
	if !k.Collapsing() || len(m) == 0 {
		return m
	}
	idx := make([]int, 0, len(m))
	for i := range m {
		idx = append(idx, i)
	}
	sort.Ints(idx)
	mn, mx := idx[0], idx[len(idx)-1]
	o := wideModel{}
	for _, i := range idx {
		j := i
		if k.Lowest() && i < mx-k.N+1 {
			j = mx - k.N + 1
		}
		if !k.Lowest() && i > mn+k.N-1 {
			j = mn + k.N - 1
		}
		x := o[j]
		if x == nil {
			x = &wideBin{w: bf(0)}
			o[j] = x
		}
		x.w.Add(x.w, m[i].w)
		x.n += m[i].n
	}
	return o
}

func wideWeight(t *rapid.T) float64 {
	switch rapid.IntRange(0, 9).Draw(t, "wwclass") {
	case 0, 1, 2, 3:
		return 1
	case 4, 5:
		return float64(rapid.IntRange(2, 16).Draw(t, "wwsmall"))
	case 6:
		return rapid.SampledFrom([]float64{0x1p53, 0x1p53 + 2, 0x1p54, 0x1p60, 3 * 0x1p62, 1e17, 0x1p100, 0x1p200}).Draw(t, "wwhuge")
	case 7:
		return math.Ldexp(float64(rapid.IntRange(1, 1<<20).Draw(t, "wwm")), rapid.IntRange(34, 120).Draw(t, "wwe"))
	default:
		return float64(rapid.IntRange(1, 1<<30).Draw(t, "wwmid"))
	}
}

func checkWide(kind gen.StoreKind, s store.Store, m wideModel) string {
	e := m.folded(kind)
	got := map[int]float64{}
	dup := false
	s.ForEach(func(i int, c float64) bool {
		if _, ok := got[i]; ok {
			dup = true
		}
		if c != 0 {
			got[i] = c
		}
		return false
	})
	if dup {
		return "ForEach reported an index twice"
	}
	total, contributions := bf(0), 0
	for i, b := range e {
		g, ok := got[i]
		if !ok {
			return fmt.Sprintf("bin %d is missing (exact weight %s)", i, b.w.Text('g', 20))
		}
		diff := new(big.Float).Sub(bf(g), b.w)
		tol := new(big.Float).Mul(b.w, bf(float64(b.n+2)*0x1p-52))
		if diff.Abs(diff).Cmp(tol) > 0 {
			return fmt.Sprintf("bin %d holds %v, its exact content is %s (%d contributions): off by more than %d ulps", i, g, b.w.Text('g', 25), b.n, b.n+2)
		}
		total.Add(total, b.w)
		contributions += b.n
	}
	for i, g := range got {
		if _, ok := e[i]; !ok {
			return fmt.Sprintf("unexpected bin %d with weight %v", i, g)
		}
	}
	if s.IsEmpty() != (len(e) == 0) {
		return fmt.Sprintf("IsEmpty = %v with %d non-empty bins", s.IsEmpty(), len(e))
	}
	if len(e) > 0 {
		idx := make([]int, 0, len(e))
		for i := range e {
			idx = append(idx, i)
		}
		sort.Ints(idx)
		mn, e1 := s.MinIndex()
		mx, e2 := s.MaxIndex()
		if e1 != nil || e2 != nil || mn != idx[0] || mx != idx[len(idx)-1] {
			return fmt.Sprintf("MinIndex/MaxIndex = %d/%d (%v,%v), non-empty bins span %d..%d", mn, mx, e1, e2, idx[0], idx[len(idx)-1])
		}
		if kind.Collapsing() && (len(idx) > kind.N || idx[len(idx)-1]-idx[0]+1 > kind.N) {
			return fmt.Sprintf("harness: folded model has %d bins over %d indexes, N=%d", len(idx), idx[len(idx)-1]-idx[0]+1, kind.N)
		}
		// the bin stream is ascending and agrees with ForEach
		prev, first := 0, true
		for b := range s.Bins() {
			if !first && b.Index() <= prev {
				return fmt.Sprintf("Bins() is not strictly ascending at index %d", b.Index())
			}
			prev, first = b.Index(), false
			if g, ok := got[b.Index()]; b.Count() != 0 && (!ok || g != b.Count()) {
				return fmt.Sprintf("Bins() reports (%d,%v), ForEach reports %v", b.Index(), b.Count(), g)
			}
		}
		// rank lookups stay inside the non-empty range
		for _, r := range []float64{-1, 0, math.Inf(1)} {
			if k := s.KeyAtRank(r); k < idx[0] || k > idx[len(idx)-1] {
				return fmt.Sprintf("KeyAtRank(%v) = %d, outside the non-empty range %d..%d", r, k, idx[0], idx[len(idx)-1])
			}
		}
	}
	tc := s.TotalCount()
	diff := new(big.Float).Sub(bf(tc), total)
	if diff.Abs(diff).Cmp(new(big.Float).Mul(total, bf(float64(contributions+len(e)+2)*0x1p-52))) > 0 {
		return fmt.Sprintf("TotalCount = %v, exact total %s", tc, total.Text('g', 25))
	}
	return ""
}

func wideMachine(t *rapid.T, prop string, kind gen.StoreKind) {
	cl := newCase(prop)
	cl.label("wide-weights")
	cl.label("kind:" + kind.Name)
	span := rapid.SampledFrom([]int{3, 12, 40, 150}).Draw(t, "span")
	if kind.Collapsing() {
		span = kind.N*rapid.SampledFrom([]int{1, 2, 4}).Draw(t, "spread")/2 + 2
		if span > 600 {
			span = 600
		}
	}
	base := gen.ClusterBase(span+2).Draw(t, "base")
	s := kind.New()
	m := wideModel{}
	cl.logf("%s wide weights kind=%s base=%d span=%d", prop, kind, base, span)
	idx := func() int { return base + gen.Delta(span).Draw(t, "delta") }
	fill := func(st store.Store, mm wideModel, n int, tag string) {
		for i := 0; i < n; i++ {
			j, w := idx(), wideWeight(t)
			if w == 1 && rapid.Bool().Draw(t, "viaAdd") {
				st.Add(j)
			} else {
				st.AddWithCount(j, w)
			}
			mm.add(j, w)
			cl.logf("%sadd(%d,%v)", tag, j, w)
			cl.labelIf(w >= 0x1p53, "weight>=2^53")
		}
	}
	steps := rapid.IntRange(1, 30).Draw(t, "steps")
	for i := 0; i < steps; i++ {
		op := rapid.SampledFrom([]string{"fill", "fill", "fill", "fill", "merge", "merge", "copy", "clear", "reweight", "encdec", "proto"}).Draw(t, "op")
		switch op {
		case "fill":
			fill(s, m, rapid.IntRange(1, 5).Draw(t, "n"), "")
		case "merge":
			ak := gen.AnyKind().Draw(t, "argkind")
			if rapid.Bool().Draw(t, "samekind") {
				ak.Name = kind.Name
				if ak.Collapsing() {
					ak.N = gen.BinLimit().Draw(t, "argN")
				} else {
					ak.N = 0
				}
			}
			arg, am := ak.New(), wideModel{}
			cl.logf("merge argument %s:", ak)
			fill(arg, am, rapid.IntRange(0, 10).Draw(t, "argn"), "  arg ")
			s.MergeWith(arg)
			m.merge(am.folded(ak).copyOf())
			cl.label("op:merge")
		case "copy":
			old := s
			s = old.Copy()
			old.Clear()
			cl.logf("Copy (original cleared)")
		case "clear":
			s.Clear()
			m = wideModel{}
			cl.logf("Clear")
		case "reweight":
			f := rapid.SampledFrom([]float64{2, 4, 64, 0.5, 0.25, 1.0 / 64, 1}).Draw(t, "factor")
			if err := s.Reweight(f); err != nil {
				t.Fatalf("%s wide %s: Reweight(%v) refused: %v", prop, kind, f, err)
			}
			if f != 1 {
				m.scale(f)
			}
			cl.logf("Reweight(%v)", f)
		case "encdec":
			fresh := kind.New()
			if err := decodeInto(fresh, encodeStore(s)); err != nil {
				t.Fatalf("%s wide %s: decoding the store's own encoding failed: %v", prop, kind, err)
			}
			s = fresh
			// the documented transform (w+1)-1 moves a weight by at most one ulp of max(w,1): one more contribution each
			m = m.folded(kind).copyOf()
			for i, b := range m {
				x, _ := b.w.Float64()
				if x < 0x1p53 {
					// below 2^53 integers survive exactly; keep the exact content
					continue
				}
				m[i].n += 2
			}
			cl.logf("encode/decode")
		case "proto":
			fresh := kind.New()
			store.MergeWithProto(fresh, s.ToProto())
			s = fresh
			m = m.folded(kind).copyOf()
			cl.logf("proto round trip")
		}
		if msg := checkWide(kind, s, m); msg != "" {
			t.Fatalf("%s wide weights %s: after step %d (%s): %s", prop, kind, i, op, msg)
		}
	}
	cl.done(len(m) >= 2 && cl.has("weight>=2^53"))
}

func TestC04_WideWeights(t *testing.T) {
	rapid.Check(t, func(t *rapid.T) { wideMachine(t, "C04", gen.NonCollapsingKind().Draw(t, "kind")) })
}

func TestC05_WideWeights(t *testing.T) {
	rapid.Check(t, func(t *rapid.T) { wideMachine(t, "C05", gen.CollapsingKind().Draw(t, "kind")) })
}
