package props

import (
	"testing"

	"pgregory.net/rapid"
	"verifharness/gen"
	"verifharness/model"
	"verifharness/stats"
)

// TestC04_PaginatedScenarios: structured states of the buffered-paginated store that short random histories do not
// reach. A state is drawn as: pages created by weighted additions at page positions that move away step by step (the
// page directory then grows several times, to the right, to the left or both, and keeps spare capacity), clusters of
// unit additions on single pages (1..65 entries: below, at and above what makes a compaction create a page) lying
// before, inside and after the directory, and scattered unit additions, in a drawn order - so that the number of
// buffered entries sits anywhere around the compaction thresholds. Two such states are then combined by MergeWith /
// decode-merge / protobuf merge (the reorganisations - compaction, page creation, directory growth - then happen in
// the middle of these multi-element operations), followed by more additions, and compared with the exact model.

func pagScenario(t *rapid.T, base int) []sop {
	var groups [][]sop
	// pages
	k := rapid.IntRange(0, 6).Draw(t, "pages")
	pattern := rapid.SampledFrom([]string{"right", "right", "left", "both", "random"}).Draw(t, "pagepattern")
	lo, hi := 0, 0
	var pageOps []sop
	for i := 0; i < k; i++ {
		step := rapid.IntRange(1, 9).Draw(t, "pagestep")
		p := 0
		switch {
		case i == 0:
			p = rapid.IntRange(-3, 3).Draw(t, "page0")
			lo, hi = p, p
		case pattern == "right" || (pattern == "both" && i%2 == 1):
			p = hi + step
			hi = p
		case pattern == "left" || pattern == "both":
			p = lo - step
			lo = p
		default:
			p = rapid.IntRange(lo-9, hi+9).Draw(t, "pagernd")
			if p < lo {
				lo = p
			}
			if p > hi {
				hi = p
			}
		}
		w := rapid.SampledFrom([]float64{2, 2.5, 3, 0.5}).Draw(t, "pagew")
		pageOps = append(pageOps, sop{Kind: "addw", Index: base + 32*p + rapid.IntRange(0, 31).Draw(t, "line"), W: w})
	}
	// clusters of unit entries on one page
	nc := rapid.IntRange(0, 4).Draw(t, "clusters")
	for i := 0; i < nc; i++ {
		p := rapid.IntRange(lo-12, hi+12).Draw(t, "clusterpage")
		n := rapid.SampledFrom([]int{1, 3, 10, 24, 31, 32, 33, 40, 50, 65}).Draw(t, "clustersize")
		same := rapid.Bool().Draw(t, "sameindex")
		line := rapid.IntRange(0, 31).Draw(t, "line")
		b := make([]int, n)
		for j := range b {
			if !same {
				line = rapid.IntRange(0, 31).Draw(t, "line")
			}
			b[j] = base + 32*p + line
		}
		groups = append(groups, []sop{{Kind: "burst", Burst: b}})
	}
	// runs of consecutive bins with non-unit weights (whole pages filled, or most of them): dense content held in pages
	nr := rapid.IntRange(0, 2).Draw(t, "wruns")
	for i := 0; i < nr; i++ {
		p := rapid.IntRange(lo-3, hi+3).Draw(t, "runpage")
		start := base + 32*p + rapid.SampledFrom([]int{0, 0, 5, 16, 31}).Draw(t, "runstart")
		n := rapid.SampledFrom([]int{17, 20, 32, 33, 40, 64, 70}).Draw(t, "runlen")
		w := rapid.SampledFrom([]float64{2, 2.5, 0.5}).Draw(t, "runw")
		var g []sop
		for j := 0; j < n; j++ {
			if rapid.IntRange(0, 9).Draw(t, "runhole") == 0 {
				continue
			}
			g = append(g, sop{Kind: "addw", Index: start + j, W: w})
		}
		if len(g) > 0 {
			groups = append(groups, g)
		}
	}
	// scattered unit entries (mostly one per page)
	ns := rapid.SampledFrom([]int{0, 0, 3, 10, 24, 30, 40, 63, 64, 70}).Draw(t, "singles")
	if ns > 0 {
		b := make([]int, ns)
		for j := range b {
			b[j] = base + 32*rapid.IntRange(lo-20, hi+20).Draw(t, "singlepage") + rapid.IntRange(0, 31).Draw(t, "line")
		}
		// split into up to three groups so that they interleave with the clusters
		for len(b) > 0 {
			n := rapid.IntRange(1, len(b)).Draw(t, "singlesplit")
			groups = append(groups, []sop{{Kind: "burst", Burst: b[:n]}})
			b = b[n:]
		}
	}
	out := pageOps
	if rapid.IntRange(0, 3).Draw(t, "pageslast") == 0 {
		// pages created after the unit entries: buffered entries whose page appears later
		out = nil
		groups = append(groups, pageOps)
	}
	for _, g := range rapid.Permutation(groups).Draw(t, "order") {
		out = append(out, g...)
	}
	return out
}

func TestC04_PaginatedScenarios(t *testing.T) {
	rapid.Check(t, func(t *rapid.T) {
		cl := newCase("C04")
		cl.label("paginated-scenario")
		cl.label("kind:paginated")
		bud := model.NewBudget(gen.Quantum)
		base := rapid.SampledFrom([]int{0, 0, 32 * 1000, -32 * 1000, 7, -13}).Draw(t, "base")
		u := newSUT(gen.StoreKind{Name: "paginated"}, bud, cl)
		cl.logf("C04 paginated scenario base=%d", base)
		for _, op := range pagScenario(t, base) {
			cl.logf("%s", op)
			if msg := u.apply(op); msg != "" {
				t.Fatalf("C04 scenario: %s", msg)
			}
		}
		if rapid.IntRange(0, 2).Draw(t, "clearandrebuild") == 0 {
			// the store is cleared and rebuilt in another state of the same family (pages kept for reuse, some of them
			// never touched again)
			if msg := u.apply(sop{Kind: "clear"}); msg != "" {
				t.Fatalf("C04 scenario: %s", msg)
			}
			cl.logf("Clear")
			for _, op := range pagScenario(t, base) {
				cl.logf("%s", op)
				if msg := u.apply(op); msg != "" {
					t.Fatalf("C04 scenario: %s", msg)
				}
			}
			cl.label("scenario:cleared-and-rebuilt")
		}
		if rapid.Bool().Draw(t, "lookfirst") {
			if msg := u.invariant(); msg != "" {
				t.Fatalf("C04 paginated scenario: the receiver differs from its model %s: %s", u.exp(), msg)
			}
		}
		rounds := rapid.IntRange(1, 3).Draw(t, "rounds")
		for r := 0; r < rounds; r++ {
			ak := gen.StoreKind{Name: "paginated"}
			if rapid.IntRange(0, 4).Draw(t, "otherkind") == 0 {
				ak = gen.AnyKind().Draw(t, "argkind")
			}
			how := rapid.SampledFrom([]string{"merge", "merge", "decmerge", "protomerge"}).Draw(t, "how")
			op := sop{Kind: how, Other: &subHist{Kind: ak, Ops: pagScenario(t, base)}, Stream: rapid.Bool().Draw(t, "viastream"), Meth: rapid.Bool().Draw(t, "viamethod")}
			cl.logf("%s", op)
			if msg := u.apply(op); msg != "" {
				t.Fatalf("C04 paginated scenario after %s: %s", op, msg)
			}
			cl.label("op:" + how)
			if msg := u.invariant(); msg != "" {
				t.Fatalf("C04 paginated scenario: after %s the store differs from the model %s: %s", op, u.exp(), msg)
			}
			moreOps := pagScenario(t, base)
			for _, more := range moreOps[:min(len(moreOps), rapid.IntRange(0, 2).Draw(t, "more"))] {
				cl.logf("%s", more)
				if msg := u.apply(more); msg != "" {
					t.Fatalf("C04 scenario: %s", msg)
				}
			}
			if msg := u.invariant(); msg != "" {
				t.Fatalf("C04 paginated scenario: after further additions the store differs from the model %s: %s", u.exp(), msg)
			}
			// its serialized forms carry exactly that content
			if rt := rapid.SampledFrom([]string{"", "proto", "encdec"}).Draw(t, "roundtrip"); rt != "" {
				if msg := u.apply(sop{Kind: rt, Meth: rapid.Bool().Draw(t, "viamethod")}); msg != "" {
					t.Fatalf("C04 paginated scenario: %s: %s", rt, msg)
				}
				cl.logf("%s", rt)
				if msg := u.invariant(); msg != "" {
					t.Fatalf("C04 paginated scenario: after a %s round trip the store differs from the model %s: %s", rt, u.exp(), msg)
				}
			}
		}
		for e, n := range u.events {
			cl.label("event:" + e)
			stats.Count("C04", "event:"+e, int64(n))
		}
		cl.done(true)
	})
}
