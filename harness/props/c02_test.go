package props

import (
	"fmt"
	"testing"

	"pgregory.net/rapid"
	"verifharness/gen"
	"verifharness/model"
	"verifharness/obs"
	"verifharness/stats"
)

func init() {
	stats.Rule("C02", "rapid cases: a weighted input (dyadic weights; unit weights in half the cases) over a generated mapping, partitioned into k in [1,6] parts (parts may be empty), each part a sketch with independently drawn non-collapsing positive/negative store kinds sharing the mapping, some parts recycled (filled with unrelated data, cleared, refilled); merged along a generated binary tree (left-deep, right-deep, balanced, random), each edge by MergeWith or by DecodeAndMergeWith(Encode(arg)). Oracle: the root's full observation (bins of both sides, zero weight, count, min, max, probe quantiles, store rank lookups) must be identical to that of a single twin sketch fed the whole input, and both must equal the exact index->weight model; every merge leaves its argument's observation unchanged; merging an empty argument changes nothing. Non-trivial: >= 2 non-empty parts and >= 2 distinct bins; distinct by hash of the printed case.")
}

type c02node struct {
	leaf        int // part index, or -1
	left, right *c02node
	decode      bool // merge right into left through Encode/DecodeAndMergeWith
}

func drawTree(t *rapid.T, parts []int, shape int) *c02node {
	if len(parts) == 1 {
		return &c02node{leaf: parts[0]}
	}
	var cut int
	switch shape {
	case 0: // left-deep
		cut = len(parts) - 1
	case 1: // right-deep
		cut = 1
	case 2: // balanced
		cut = len(parts) / 2
	default:
		cut = rapid.IntRange(1, len(parts)-1).Draw(t, "cut")
	}
	return &c02node{leaf: -1, left: drawTree(t, parts[:cut], shape), right: drawTree(t, parts[cut:], shape), decode: rapid.IntRange(0, 3).Draw(t, "viaDecode") == 0}
}

func depth(n *c02node) int {
	if n.leaf >= 0 {
		return 0
	}
	l, r := depth(n.left), depth(n.right)
	if r > l {
		l = r
	}
	return l + 1
}

func TestC02(t *testing.T) {
	rapid.Check(t, func(t *rapid.T) {
		cl := newCase("C02")
		spec, m := buildMapping(t, 1e-4, 0.5)
		k := rapid.IntRange(1, 6).Draw(t, "parts")
		cfgs := make([]skCfg, k)
		allSparse := true
		for i := range cfgs {
			cfgs[i] = skCfg{spec: spec, m: m, pos: gen.NonCollapsingKind().Draw(t, "pos"), neg: gen.NonCollapsingKind().Draw(t, "neg")}
			allSparse = allSparse && cfgs[i].bothSparse()
		}
		twinCfg := skCfg{spec: spec, m: m, pos: gen.NonCollapsingKind().Draw(t, "twinpos"), neg: gen.NonCollapsingKind().Draw(t, "twinneg")}
		w := 1 << 14
		if allSparse && twinCfg.bothSparse() {
			w = 0
		}
		d := drawDomain(t, m, w)
		prof := drawProfile(t)
		bud := model.NewBudget(gen.Quantum)
		n := rapid.IntRange(0, 60).Draw(t, "n")
		unit := rapid.Bool().Draw(t, "unitweights")
		cl.logf("C02 %s parts=%d n=%d unit=%v twin=(%s,%s)", spec, k, n, unit, twinCfg.pos, twinCfg.neg)
		parts := make([]obs.SK, k)
		models := make([]*skModel, k)
		for i := range parts {
			parts[i] = cfgs[i].new()
			models[i] = newSkModel(m)
			if rapid.IntRange(0, 4).Draw(t, "recycled") == 0 {
				// recycled part: unrelated data, then Clear
				for j := 0; j < rapid.IntRange(1, 8).Draw(t, "junk"); j++ {
					v, _, _ := d.value(t, signProfile{pos: true, neg: true, zero: true})
					_ = parts[i].AddWithCount(v, 3)
				}
				parts[i].Clear()
				cl.label("recycled-part")
			}
			cl.logf("part %d: pos=%s neg=%s", i, cfgs[i].pos, cfgs[i].neg)
		}
		twin := twinCfg.new()
		whole := newSkModel(m)
		total := 0.0
		for j := 0; j < n; j++ {
			v, class, _ := d.value(t, prof)
			wgt := 1.0
			if !unit {
				wgt = gen.Weight(true).Draw(t, "w")
			}
			if !bud.Fits(total + wgt) {
				wgt = 0
			}
			total += wgt
			p := rapid.IntRange(0, k-1).Draw(t, "part")
			cl.logf("part %d <- (%v, %v)", p, v, wgt)
			cl.label("has-" + class)
			var e1, e2 error
			if wgt == 1 && rapid.Bool().Draw(t, "viaAdd") {
				e1, e2 = parts[p].Add(v), twin.Add(v)
			} else {
				e1, e2 = parts[p].AddWithCount(v, wgt), twin.AddWithCount(v, wgt)
			}
			if e1 != nil || e2 != nil {
				t.Fatalf("C02: add (%v,%v) refused: %v %v", v, wgt, e1, e2)
			}
			models[p].add(v, wgt)
			whole.add(v, wgt)
		}
		nonEmpty := 0
		for i := range models {
			if models[i].total() > 0 {
				nonEmpty++
			} else {
				cl.label("empty-part")
			}
		}
		order := rapid.Permutation(func() []int {
			o := make([]int, k)
			for i := range o {
				o[i] = i
			}
			return o
		}()).Draw(t, "order")
		shape := rapid.IntRange(0, 3).Draw(t, "shape")
		tree := drawTree(t, order, shape)
		cl.logf("merge order=%v shape=%d depth=%d", order, shape, depth(tree))
		cl.labelIf(depth(tree) >= 2, "tree-depth>=2")
		helper := &skUT{bud: bud}
		var eval func(nd *c02node) int
		eval = func(nd *c02node) int {
			if nd.leaf >= 0 {
				return nd.leaf
			}
			l, r := eval(nd.left), eval(nd.right)
			before := helper.fullObs(parts[r], models[r], cfgs[r])
			lbefore := helper.fullObs(parts[l], models[l], cfgs[l])
			var err error
			if nd.decode {
				var b []byte
				omit := rapid.Bool().Draw(t, "omit")
				parts[r].Encode(&b, omit)
				err = parts[l].DecodeAndMergeWith(b)
				cl.label("decode-merge-edge")
			} else {
				err = parts[l].MergeWith(parts[r])
			}
			if err != nil {
				t.Fatalf("C02: merging part %d into part %d failed: %v", r, l, err)
			}
			cl.logf("merge %d <- %d (decode=%v)", l, r, nd.decode)
			if dd := obs.DiffSketch(helper.fullObs(parts[r], models[r], cfgs[r]), before, obs.DiffOpts{IgnoreSum: cfgs[r].anySparse()}); dd != "" {
				t.Fatalf("C02: merging changed its argument (part %d, %s): %s", r, cfgs[r], dd)
			}
			if models[r].total() == 0 {
				if dd := obs.DiffSketch(helper.fullObs(parts[l], models[l], cfgs[l]), lbefore, obs.DiffOpts{IgnoreSum: cfgs[l].anySparse()}); dd != "" {
					t.Fatalf("C02: merging an empty sketch changed the receiver (part %d, %s): %s", l, cfgs[l], dd)
				}
			}
			models[l].merge(models[r], cfgs[r])
			// the argument is not used again in the tree: mutate and clear it, the receiver must not notice
			sv := d.clamp(m.Value(d.lo + (d.hi-d.lo)/2))
			_ = parts[r].AddWithCount(sv, 3)
			_ = parts[r].Add(-sv)
			parts[r].Clear()
			if msg := checkAgainstModel(parts[l], cfgs[l], models[l], bud); msg != "" {
				t.Fatalf("C02: after merging part %d into part %d (%s): %s", r, l, cfgs[l], msg)
			}
			cl.labelIf(cfgs[l].pos.Name != cfgs[r].pos.Name || cfgs[l].neg.Name != cfgs[r].neg.Name, "mixed-store-kinds")
			cl.labelIf(!nd.decode && cfgs[l].pos.Name == cfgs[r].pos.Name && cfgs[l].pos.Name != "sparse", "same-kind-fast-path")
			return l
		}
		root := eval(tree)
		// the root holds everything
		if msg := checkAgainstModel(parts[root], cfgs[root], whole, bud); msg != "" {
			t.Fatalf("C02: merged sketch (%s) differs from the model of the whole input: %s", cfgs[root], msg)
		}
		if msg := checkAgainstModel(twin, twinCfg, whole, bud); msg != "" {
			t.Fatalf("C02: single sketch (%s) fed the whole input differs from the model: %s", twinCfg, msg)
		}
		og, ow := helper.fullObs(parts[root], whole, cfgs[root]), helper.fullObs(twin, whole, twinCfg)
		if dd := obs.DiffSketch(og, ow, obs.DiffOpts{IgnoreSum: true}); dd != "" {
			t.Fatalf("C02: merged sketch (%s) differs from a single sketch (%s) fed the whole input: %s", cfgs[root], twinCfg, dd)
		}
		bins := len(whole.pos) + len(whole.neg)
		if whole.zero > 0 {
			bins++
		}
		cl.label(fmt.Sprintf("parts:%d", k))
		cl.done(nonEmpty >= 2 && bins >= 2)
	})
}

// TestC02_StructuredParts: the parts are sketches over buffered-paginated stores (now and then another kind) in the
// structured states of TestC04_PaginatedScenarios (pages made by weighted values at positions moving away step by step,
// clusters of unit values on one page around the compaction thresholds, scattered unit values); they are merged in a
// chain, by MergeWith or through their encoding, and the result is compared with one sketch fed everything and with
// the exact model.
func TestC02_StructuredParts(t *testing.T) {
	rapid.Check(t, func(t *rapid.T) {
		cl := newCase("C02")
		cl.label("structured-parts")
		spec, m := buildMapping(t, 1e-3, 0.03)
		dom := newDomain(m)
		base := m.Index(1)
		if dom.minIdx > base-32*40 || dom.maxIdx < base+32*40 {
			t.Skip("index range too narrow")
		}
		k := rapid.IntRange(2, 4).Draw(t, "parts")
		bud := model.NewBudget(gen.Quantum)
		twinCfg := skCfg{spec: spec, m: m, pos: gen.NonCollapsingKind().Draw(t, "twinpos"), neg: gen.NonCollapsingKind().Draw(t, "twinneg")}
		twin := twinCfg.new()
		whole := newSkModel(m)
		parts := make([]obs.SK, k)
		models := make([]*skModel, k)
		cfgs := make([]skCfg, k)
		cl.logf("C02 structured parts %s k=%d", spec, k)
		for i := range parts {
			kind := gen.StoreKind{Name: "paginated"}
			if rapid.IntRange(0, 5).Draw(t, "otherkind") == 0 {
				kind = gen.NonCollapsingKind().Draw(t, "kind")
			}
			cfgs[i] = skCfg{spec: spec, m: m, pos: kind, neg: kind}
			parts[i] = cfgs[i].new()
			models[i] = newSkModel(m)
			neg := rapid.IntRange(0, 3).Draw(t, "negside") == 0
			if i == 0 && rapid.IntRange(0, 2).Draw(t, "decayed") == 0 {
				// the receiver had a former life that a decay wiped out in part: unit values far around the centre, then
				// heavy values (weight w*2^600) near it, two reweightings by 2^-600 (the units become 2^-1200 = 0, exactly)
				// and one by 2^600 (the heavy ones are back to w). Twin and model only see the heavy values with weight w.
				sgn := 1.0
				if neg {
					sgn = -1
				}
				for j, n := 0, rapid.IntRange(1, 6).Draw(t, "lightn"); j < n; j++ {
					off := rapid.IntRange(30, 200).Draw(t, "lightoff")
					if rapid.Bool().Draw(t, "lightleft") {
						off = -off
					}
					_ = parts[0].Add(sgn * dom.clamp(m.Value(base+off)))
				}
				for j, n := 0, rapid.IntRange(1, 4).Draw(t, "heavyn"); j < n; j++ {
					v := sgn * dom.clamp(m.Value(base+rapid.IntRange(-6, 6).Draw(t, "heavyoff")))
					w := float64(rapid.IntRange(2, 9).Draw(t, "heavyw"))
					if e1, e2 := parts[0].AddWithCount(v, w*0x1p600), twin.AddWithCount(v, w); e1 != nil || e2 != nil {
						t.Fatalf("C02 structured: add refused: %v %v", e1, e2)
					}
					models[0].add(v, w)
					whole.add(v, w)
				}
				for _, f := range []float64{0x1p-600, 0x1p-600, 0x1p600} {
					if err := parts[0].Reweight(f); err != nil {
						t.Fatalf("C02 structured: Reweight(%v): %v", f, err)
					}
				}
				cl.label("receiver-partially-decayed")
			}
			for _, op := range pagScenario(t, base) {
				cl.logf("part %d (neg=%v): %s", i, neg, op)
				feed := func(idx int, w float64) {
					v := dom.clamp(m.Value(idx))
					if neg {
						v = -v
					}
					var e1, e2 error
					if w == 1 {
						e1, e2 = parts[i].Add(v), twin.Add(v)
					} else {
						e1, e2 = parts[i].AddWithCount(v, w), twin.AddWithCount(v, w)
					}
					if e1 != nil || e2 != nil {
						t.Fatalf("C02 structured: add refused: %v %v", e1, e2)
					}
					models[i].add(v, w)
					whole.add(v, w)
				}
				switch op.Kind {
				case "addw":
					feed(op.Index, op.W)
				case "burst":
					for _, idx := range op.Burst {
						feed(idx, 1)
					}
				}
			}
		}
		if !bud.Fits(whole.total()) {
			t.Skip("budget")
		}
		helper := &skUT{bud: bud}
		for i := 1; i < k; i++ {
			before := helper.fullObs(parts[i], models[i], cfgs[i])
			var err error
			if rapid.IntRange(0, 2).Draw(t, "encodefirst") == 0 {
				// the receiver was serialized just before (which empties what its buffer can give to pages)
				var scratch []byte
				parts[0].Encode(&scratch, false)
				cl.label("receiver-encoded-before-merge")
			}
			if rapid.IntRange(0, 3).Draw(t, "viaDecode") == 0 {
				var b []byte
				parts[i].Encode(&b, rapid.Bool().Draw(t, "omit"))
				err = parts[0].DecodeAndMergeWith(b)
				cl.label("decode-merge-edge")
			} else {
				err = parts[0].MergeWith(parts[i])
			}
			if err != nil {
				t.Fatalf("C02 structured: merge failed: %v", err)
			}
			if dd := obs.DiffSketch(helper.fullObs(parts[i], models[i], cfgs[i]), before, obs.DiffOpts{IgnoreSum: cfgs[i].anySparse()}); dd != "" {
				t.Fatalf("C02 structured: merging changed its argument (part %d): %s", i, dd)
			}
			models[0].merge(models[i], cfgs[i])
			if rapid.Bool().Draw(t, "lookbetween") {
				if msg := checkAgainstModel(parts[0], cfgs[0], models[0], bud); msg != "" {
					t.Fatalf("C02 structured: after merging part %d: %s", i, msg)
				}
			}
			// the receiver lives on: it is serialized, fed a few more unit values, reweighted and restored - none of which
			// may reach the argument it has just absorbed
			switch rapid.IntRange(0, 3).Draw(t, "receiverafter") {
			case 0:
				var scratch []byte
				parts[0].Encode(&scratch, false)
			case 1:
				for j, n := 0, rapid.IntRange(1, 70).Draw(t, "morefed"); j < n; j++ {
					v := dom.clamp(m.Value(base + 32*rapid.IntRange(-30, 30).Draw(t, "morepage") + j%32))
					if bud.Fits(whole.total() + 1) {
						_, _ = parts[0].Add(v), twin.Add(v)
						models[0].add(v, 1)
						whole.add(v, 1)
					}
				}
			case 2:
				_ = parts[0].Reweight(2)
				_ = parts[0].Reweight(0.5)
			}
			if dd := obs.DiffSketch(helper.fullObs(parts[i], models[i], cfgs[i]), before, obs.DiffOpts{IgnoreSum: cfgs[i].anySparse()}); dd != "" {
				t.Fatalf("C02 structured: what the receiver did after the merge changed the argument (part %d): %s", i, dd)
			}
		}
		for i := 1; i < k; i++ {
			if msg := checkAgainstModel(parts[i], cfgs[i], models[i], bud); msg != "" {
				t.Fatalf("C02 structured: at the end, the argument of an earlier merge (part %d) differs from its own model: %s", i, msg)
			}
		}
		if msg := checkAgainstModel(parts[0], cfgs[0], whole, bud); msg != "" {
			t.Fatalf("C02 structured: merged sketch (%s) differs from the model of the whole input: %s", cfgs[0], msg)
		}
		og, ow := helper.fullObs(parts[0], whole, cfgs[0]), helper.fullObs(twin, whole, twinCfg)
		if dd := obs.DiffSketch(og, ow, obs.DiffOpts{IgnoreSum: true}); dd != "" {
			t.Fatalf("C02 structured: merged sketch differs from a single sketch (%s) fed the whole input: %s", twinCfg, dd)
		}
		cl.label("same-kind-fast-path")
		cl.done(whole.total() > 0)
	})
}
