package props

import (
	"fmt"
	"math"
	"testing"

	"pgregory.net/rapid"
	"verifharness/gen"
	"verifharness/layout"
	"verifharness/model"
	"verifharness/stats"
)

func init() {
	stats.Rule("C04", "rapid state machine per store kind (dense, sparse, buffered-paginated): histories of Add / AddWithCount (weights dyadic, incl. 0 and 1) / AddBin / bursts of unit adds in narrow windows / MergeWith(argument built by a generated sub-history on any of the 5 kinds, incl. empty and cleared) / Copy (original then mutated and cleared) / Clear / Reweight (dyadic factors) / Encode+Decode (replace or double into itself) / ToProto+MergeWithProto (replace or double), indexes in a cluster anywhere in int32 biased to page/array boundaries; after every step the full observation (IsEmpty, TotalCount, MinIndex, MaxIndex, ForEach, Bins(), KeyAtRank at -1, 0, cumulative boundaries +- half a quantum, total, total+1) must equal the exact index->weight map's, bit for bit. Non-trivial: >= 3 distinct indexes, >= 2 mutating operation kinds and (layout hook on) at least one structural event (array shift/grow, page creation, page-slice left extension, buffer compaction); distinct by hash of the operation log.")
	stats.Rule("C05", "rapid state machine as C04 on collapsing-lowest/highest stores with N in {1..2048} (small N over-weighted) and index spread 0.5N..20N; merge arguments of every kind and, for same-kind arguments, an independent bin limit (incl. wide argument into an empty/cleared receiver); after every step the observation must equal fold(M,N) of the exact unfolded content M, bins <= N, span <= N, total == total(M), allocated length <= N (hook); plus sketch-level cases on LogCollapsing{Lowest,Highest}DenseDDSketch checking alpha-accuracy of every quantile whose order statistics fall in retained bins. Non-trivial: at least one fold happened and at least one operation after it; distinct by hash of the operation log.")
}

var storeOpKinds = []string{"simple", "simple", "simple", "simple", "simple", "simple", "widen", "merge", "merge", "decmerge", "protomerge", "copy", "clear", "reweight", "reweight", "encdec", "encdouble", "proto", "protodouble", "vanish"}

// storeMachine runs one generated history on kind and checks the invariant after every step.
func storeMachine(t *rapid.T, prop string, kind gen.StoreKind) {
	cl := newCase(prop)
	bud := model.NewBudget(gen.Quantum)
	span := gen.SpanFor(kind, t)
	if kind.Collapsing() {
		f := rapid.SampledFrom([]float64{0.5, 1, 1, 2, 5, 20}).Draw(t, "spreadfactor")
		span = int(float64(kind.N)*f/2) + 1
		if span > 1<<14 {
			span = 1 << 14
		}
	} else if rapid.IntRange(0, 2).Draw(t, "narrow") == 0 {
		span = rapid.SampledFrom([]int{3, 40, 100, 300, 2000}).Draw(t, "narrowspan")
	}
	base := gen.ClusterBase(span+2).Draw(t, "base")
	if kind.Name == "sparse" && rapid.IntRange(0, 3).Draw(t, "fullrange") == 0 {
		// the sparse store has no memory constraint: indexes anywhere in int32 (encoded index deltas then exceed 32 bits)
		base, span = 0, math.MaxInt32-2
		cl.label("sparse-full-int32-range")
	}
	g := &opGen{base: base, span: span, bud: bud, kinds: storeOpKinds}
	if rapid.IntRange(0, 7).Draw(t, "largescale") == 0 {
		// one case in eight is large-scale: big bursts are part of its operation mix
		g.kinds = append(append([]string{}, g.kinds...), "bigburst", "bigburst", "bigburst")
		cl.label("large-scale")
	}
	if kind.Name == "paginated" {
		// more bursts of unit adds: they are what fills the buffer, triggers compaction and creates pages
		g.kinds = append(append([]string{}, g.kinds...), "burst", "burst", "burst", "burst")
	}
	u := newSUT(kind, bud, cl)
	cl.logf("%s kind=%s base=%d span=%d", prop, kind, base, span)
	cl.label("kind:" + kind.Name)
	steps := 0
	if rapid.IntRange(0, 3).Draw(t, "startwidening") == 0 {
		// the history starts on an empty store with a progressively widening distribution
		gg := *g
		gg.kinds = []string{"widen"}
		op := gg.drawOp(t, u)
		cl.logf("%s", op)
		if msg := u.apply(op); msg != "" {
			t.Fatalf("%s %s after %s: %s", prop, kind, op, msg)
		}
		if msg := u.invariant(); msg != "" {
			t.Fatalf("%s %s: after a widening start %s the observation differs from the model %s: %s", prop, kind, op, u.exp(), msg)
		}
		cl.label("start:widening")
	}
	// rankFirst: a rank lookup (or a min / max index query) as the very FIRST read after a mutation - the full observation
	// that follows every step starts with iterations, which sort and reorganise: a lookup that relies on something the
	// mutation left stale would be masked by them
	rankFirst := func(t *rapid.T) {
		e := u.exp()
		if len(e) == 0 || rapid.IntRange(0, 2).Draw(t, "rankfirst") != 0 {
			return
		}
		switch rapid.IntRange(0, 3).Draw(t, "firstread") {
		case 0:
			mn, _, _ := e.MinMax()
			if got, err := u.s.MinIndex(); err != nil || got != mn {
				t.Fatalf("%s %s: MinIndex() as the first read after a mutation = %d (%v), the model %s says %d", prop, kind, got, err, e, mn)
			}
		case 1:
			_, mx, _ := e.MinMax()
			if got, err := u.s.MaxIndex(); err != nil || got != mx {
				t.Fatalf("%s %s: MaxIndex() as the first read after a mutation = %d (%v), the model %s says %d", prop, kind, got, err, e, mx)
			}
		default:
			ranks := probeRanksFor(e, bud)
			r := ranks[rapid.IntRange(0, len(ranks)-1).Draw(t, "rank")]
			want, _ := e.KeyAtRank(r)
			if got := u.s.KeyAtRank(r); got != want {
				t.Fatalf("%s %s: KeyAtRank(%v) as the first read after a mutation = %d, the model %s says %d", prop, kind, r, got, e, want)
			}
		}
		cl.label("first-read-after-mutation")
	}
	t.Repeat(map[string]func(*rapid.T){
		"mutate": func(t *rapid.T) {
			op := g.drawOp(t, u)
			cl.logf("%s", op)
			if msg := u.apply(op); msg != "" {
				t.Fatalf("%s %s after %s: %s", prop, kind, op, msg)
			}
			cl.label("op:" + op.Kind)
			steps++
			rankFirst(t)
		},
		"mutate-many": func(t *rapid.T) {
			// several additions back to back with no read in between (reads sort/compact the paginated store:
			// states that only exist between reads are otherwise never observed)
			n := rapid.IntRange(2, 8).Draw(t, "many")
			for i := 0; i < n; i++ {
				op := g.drawSimple(t, u.m.Total())
				switch rapid.IntRange(0, 5).Draw(t, "manykind") {
				case 0, 1:
					if b := g.burst(t); bud.Fits(u.m.Total() + float64(len(b))) {
						op = sop{Kind: "burst", Burst: b}
					}
				case 2:
					// other mutations that do not read the store either
					gg := *g
					gg.kinds = []string{"clear", "merge", "decmerge", "protomerge", "reweight", "copy"}
					op = gg.drawOp(t, u)
					cl.label("mutate-many:non-add")
				}
				cl.logf("%s", op)
				if msg := u.apply(op); msg != "" {
					t.Fatalf("%s %s after %s: %s", prop, kind, op, msg)
				}
				cl.label("op:" + op.Kind)
				steps++
			}
			cl.label("mutate-many")
			rankFirst(t)
		},
		"clear-refill-same-size": func(t *rapid.T) {
			// Clear, then as many distinct indexes as the store held at its last read, with no read in between: the
			// next read sees a different content of the same size (anything remembered across reads and keyed on the
			// size is stale)
			n := len(u.exp())
			if n == 0 || n > 40 {
				t.Skip("nothing to refill, or too much")
			}
			ops := []sop{{Kind: "clear"}}
			seen := map[int]bool{}
			total := 0.0
			for tries := 0; len(seen) < n && tries < 20*n; tries++ {
				i := g.index(t)
				if seen[i] {
					continue
				}
				w := 1.0
				if rapid.Bool().Draw(t, "refillweighted") {
					w = gen.Weight(false).Draw(t, "w")
				}
				if !bud.Fits(total + w) {
					w = 0
				}
				if w == 0 {
					continue
				}
				seen[i] = true
				total += w
				ops = append(ops, sop{Kind: "addw", Index: i, W: w})
			}
			if len(seen) != n {
				t.Skip("could not draw enough distinct indexes")
			}
			for _, op := range ops {
				cl.logf("%s", op)
				if msg := u.apply(op); msg != "" {
					t.Fatalf("%s %s after %s: %s", prop, kind, op, msg)
				}
				steps++
			}
			cl.label("clear-refill-same-size")
		},
		"read": func(t *rapid.T) {
			k := rapid.IntRange(1, 8).Draw(t, "stopAt")
			cl.logf("ForEach(stop at %d)", k)
			if msg := u.partialForEach(k); msg != "" {
				t.Fatalf("%s %s: %s", prop, kind, msg)
			}
			if rapid.IntRange(0, 2).Draw(t, "underflowprobe") == 0 {
				if msg := u.partialUnderflowProbe(); msg != "" {
					t.Fatalf("%s %s: %s", prop, kind, msg)
				}
				cl.label("partial-underflow-probe")
			}
		},
		"": func(t *rapid.T) {
			if msg := u.invariant(); msg != "" {
				t.Fatalf("%s %s: observation differs from the model %s: %s", prop, kind, u.exp(), msg)
			}
		},
	})
	structural := 0
	for e, n := range u.events {
		cl.label("event:" + e)
		stats.Count(prop, "event:"+e, int64(n))
		if e != "buffer-and-pages" && e != "collapsed" {
			structural += n
		}
	}
	stats.Count(prop, "steps", int64(steps))
	var nontrivial bool
	if prop == "C04" {
		nontrivial = len(u.indexes) >= 3 && len(u.mutKind) >= 2 && (!layout.Enabled || structural > 0 || kind.Name == "sparse")
	} else {
		nontrivial = u.folds > 0 && cl.has("op-after-fold")
		cl.label(fmt.Sprintf("Nclass:%s", nClass(kind.N)))
	}
	cl.done(nontrivial)
}

func nClass(n int) string {
	switch {
	case n <= 5:
		return "1-5"
	case n <= 33:
		return "6-33"
	case n <= 128:
		return "34-128"
	default:
		return "129-2048"
	}
}

func TestC04_Dense(t *testing.T) {
	rapid.Check(t, func(t *rapid.T) { storeMachine(t, "C04", gen.StoreKind{Name: "dense"}) })
}
func TestC04_Sparse(t *testing.T) {
	rapid.Check(t, func(t *rapid.T) { storeMachine(t, "C04", gen.StoreKind{Name: "sparse"}) })
}
func TestC04_Paginated(t *testing.T) {
	rapid.Check(t, func(t *rapid.T) { storeMachine(t, "C04", gen.StoreKind{Name: "paginated"}) })
}

func TestC05_Stores(t *testing.T) {
	rapid.Check(t, func(t *rapid.T) { storeMachine(t, "C05", gen.CollapsingKind().Draw(t, "kind")) })
}
