package props

import (
	"bytes"
	"fmt"
	"testing"

	enc "github.com/DataDog/sketches-go/ddsketch/encoding"
	"github.com/DataDog/sketches-go/ddsketch/pb/sketchpb"
	"github.com/DataDog/sketches-go/ddsketch/store"
	"google.golang.org/protobuf/proto"
	"pgregory.net/rapid"
	"verifharness/gen"
	"verifharness/layout"
	"verifharness/model"
	"verifharness/obs"
	"verifharness/stats"
)

func init() {
	stats.Rule("C14", "rapid state machines over a small population (1-4 live objects) of sketches (one variant per case, store kinds drawn per object, shared mapping) or of stores (five kinds), each paired with its own exact model. Mutating actions (adds, bursts, merges, clears, reweights, encode/decode, decode-merge) hit a chosen object; read-only actions hit a chosen object: every observer, ForEach full and early-stopped, ToProto(+Marshal), EncodeProto, Encode (both omit settings, with prefix), Copy (the copy joins the population with a copy of the model), being the argument of another object's MergeWith, being the receiver of ChangeMapping, store-level Bins()/KeyAtRank/ToProto/Encode on the sketch's stores. Oracle: after every action every live object's full observation equals its own model, and every object that was not the target of a mutation has exactly the observation it had before. Non-trivial: a read-only action on a paginated store holding buffered entries followed by a mutation (hook), or a copy followed by mutations on both sides; distinct by hash of the operation log.")
}

// ---------------------------------------------------------------- sketches

var c14MutKinds = []string{"add", "add", "add", "burst", "merge", "decmerge", "deczeros", "clear", "reweight", "encdec"}
var c14ReadKinds = []string{"observe", "foreach-stop", "toproto", "encodeproto", "encode", "copy", "copy", "merge-argument", "changemapping", "store-reads"}

type popSk struct {
	u            *skUT
	last         obs.SketchObs
	rp, rn       []float64 // the rank probes last was taken with (the shared budget's quantum changes when any object is reweighted)
	copyPartner  int       // index of the object it was copied from / to, -1
	mutAfter     bool      // mutated after the copy
	readBuffered bool      // a read-only action happened while a paginated store held buffered entries
}

func TestC14_Sketch(t *testing.T) {
	rapid.Check(t, func(t *rapid.T) {
		cl := newCase("C14")
		spec, m := buildMapping(t, 1e-3, 0.3)
		exact := rapid.Bool().Draw(t, "exact")
		bud := model.NewBudget(gen.Quantum)
		d := drawDomain(t, m, 1<<12)
		prof := drawProfile(t)
		cl.logf("C14 sketches %s exact=%v", spec, exact)
		cl.label("level:sketch")
		cl.labelIf(exact, "variant:exact")
		newObj := func(t *rapid.T) *popSk {
			c := skCfg{spec: spec, m: m, exact: exact, pos: gen.AnyKind().Draw(t, "pos"), neg: gen.AnyKind().Draw(t, "neg")}
			if exact {
				c.neg = c.pos
			}
			u := newSkUT(c, d, bud, cl)
			cl.label("kind:" + c.pos.Name)
			p := &popSk{u: u, copyPartner: -1}
			p.observe()
			return p
		}
		pop := []*popSk{newObj(t)}
		g := &kopGen{dom: d, prof: prof, bud: bud, kinds: c14MutKinds, collapsing: true}
		nontrivialCopy, nontrivialBuffered := false, false
		refresh := func(i int) { pop[i].observe() }
		checkOthers := func(t *rapid.T, except int, what string) {
			for j, p := range pop {
				if j == except {
					continue
				}
				now := obs.Sketch(p.u.s, obs.DefaultQs, p.rp, p.rn)
				if dd := obs.DiffSketch(now, p.last, p.u.diffOpts()); dd != "" {
					t.Fatalf("C14: %s changed object %d (%s), which was not its target: %s", what, j, p.u.cfg, dd)
				}
			}
		}
		buffered := func(p *popSk) bool {
			if !layout.Enabled {
				return false
			}
			return layout.Of(p.u.s.Pos()).BufferLen > 0 || layout.Of(p.u.s.Neg()).BufferLen > 0
		}
		t.Repeat(map[string]func(*rapid.T){
			"new": func(t *rapid.T) {
				if len(pop) >= 4 {
					t.Skip("population full")
				}
				pop = append(pop, newObj(t))
				cl.logf("new object %d: %s", len(pop)-1, pop[len(pop)-1].u.cfg)
			},
			"mutate": func(t *rapid.T) {
				i := rapid.IntRange(0, len(pop)-1).Draw(t, "obj")
				p := pop[i]
				op := g.drawOp(t, p.u)
				cl.logf("obj %d: %s", i, op)
				if msg := p.u.apply(op); msg != "" {
					t.Fatalf("C14 obj %d (%s) after %s: %s", i, p.u.cfg, op, msg)
				}
				if msg := p.u.invariant(); msg != "" {
					t.Fatalf("C14 obj %d (%s) after %s: %s", i, p.u.cfg, op, msg)
				}
				checkOthers(t, i, fmt.Sprintf("%s on object %d", op, i))
				refresh(i)
				if p.readBuffered {
					nontrivialBuffered = true
					cl.label("mutation-after-read-on-buffered-paginated")
				}
				if p.copyPartner >= 0 {
					p.mutAfter = true
					if q := pop[p.copyPartner]; q.mutAfter && q.copyPartner == i {
						nontrivialCopy = true
						cl.label("copy-then-mutations-on-both-sides")
					}
				}
			},
			"read": func(t *rapid.T) {
				i := rapid.IntRange(0, len(pop)-1).Draw(t, "obj")
				p := pop[i]
				u := p.u
				kind := rapid.SampledFrom(c14ReadKinds).Draw(t, "read")
				cl.logf("obj %d: read %s", i, kind)
				cl.label("read:" + kind)
				if buffered(p) {
					p.readBuffered = true
				}
				mutated := -1
				switch kind {
				case "observe":
					_ = u.fullObs(u.s, u.k, u.cfg)
				case "foreach-stop":
					k := rapid.IntRange(1, 5).Draw(t, "stopAt")
					n := 0
					u.s.ForEach(func(v, w float64) bool { n++; return n >= k })
				case "toproto":
					if _, err := proto.Marshal(u.s.Inner().ToProto()); err != nil {
						t.Fatalf("C14: Marshal(ToProto()): %v", err)
					}
				case "encodeproto":
					var buf bytes.Buffer
					u.s.Inner().EncodeProto(&buf)
				case "encode":
					b := rapid.SliceOfN(rapid.Byte(), 0, 5).Draw(t, "prefix")
					u.s.Encode(&b, rapid.Bool().Draw(t, "omit"))
				case "copy":
					cp := &skUT{cfg: u.cfg, s: u.s.Copy(), k: u.k.copy(), bud: bud, cl: cl, kinds: map[string]bool{}, inex: u.inex, safeV: u.safeV, lossy: u.lossy}
					np := &popSk{u: cp, copyPartner: i, rp: p.rp, rn: p.rn}
					np.last = obs.Sketch(cp.s, obs.DefaultQs, p.rp, p.rn)
					if dd := obs.DiffSketch(np.last, p.last, u.diffOpts()); dd != "" {
						t.Fatalf("C14: the copy of object %d (%s) does not answer like its original: %s", i, u.cfg, dd)
					}
					if len(pop) >= 4 {
						// replace another object
						j := (i + 1 + rapid.IntRange(0, len(pop)-2).Draw(t, "replace")) % len(pop)
						for _, q := range pop {
							if q.copyPartner == j {
								q.copyPartner = -1
							}
						}
						pop[j] = np
						p.copyPartner, p.mutAfter = j, false
					} else {
						pop = append(pop, np)
						p.copyPartner, p.mutAfter = len(pop)-1, false
					}
				case "merge-argument":
					if len(pop) < 2 {
						t.Skip("needs two objects")
					}
					j := (i + 1 + rapid.IntRange(0, len(pop)-2).Draw(t, "receiver")) % len(pop)
					r := pop[j].u
					if !bud.Fits(r.k.total() + u.k.total()) {
						t.Skip("budget")
					}
					if err := r.s.MergeWith(u.s); err != nil {
						t.Fatalf("C14: MergeWith refused: %v", err)
					}
					r.k.merge(u.k, u.cfg)
					r.inex++
					if u.cfg.anyCollapsing() {
						r.lossy = true
					}
					if msg := r.invariant(); msg != "" {
						t.Fatalf("C14: receiver %d (%s) after merging object %d (%s): %s", j, r.cfg, i, u.cfg, msg)
					}
					mutated = j
					if pop[j].copyPartner >= 0 {
						pop[j].mutAfter = true
					}
				case "changemapping":
					for _, x := range u.k.vals {
						if a := abs(x.V); a != 0 && (a < 1e-100 || a > 1e100) {
							t.Skip("ChangeMapping is only specified for values well inside both mappings' ranges")
						}
					}
					_, m2 := buildMapping(t, 1e-2, 0.3)
					// only the receiver's purity is judged; the result (non-dyadic weights) is discarded
					res := u.s.ChangeMapping(m2, gen.StoreKind{Name: "sparse"}.Provider(), rapid.SampledFrom([]float64{1, 1, 2, 0.5, 1.37}).Draw(t, "scale"))
					// the result is a new sketch: operating on it must not affect the receiver (checked below for every live object)
					_ = res.AddWithCount(u.safeV, 3)
					_ = res.Add(-u.safeV)
					if !res.IsEmpty() {
						_ = res.Reweight(2)
					}
					res.Clear()
				case "store-reads":
					for _, st := range storesOf(u.s) {
						for range st.Bins() {
						}
						_ = st.KeyAtRank(rapid.Float64Range(-1, 50).Draw(t, "rank"))
						_ = st.ToProto()
						var b []byte
						st.Encode(&b, enc.FlagTypePositiveStore)
						_, _ = st.MinIndex()
						_, _ = st.MaxIndex()
						_ = st.TotalCount()
						_ = st.IsEmpty()
					}
				}
				checkOthers(t, mutated, fmt.Sprintf("read-only %s on object %d", kind, i))
				if mutated >= 0 {
					refresh(mutated)
				}
			},
			"": func(t *rapid.T) {
				for j, p := range pop {
					if msg := p.u.invariant(); msg != "" {
						t.Fatalf("C14: object %d (%s) differs from its model: %s", j, p.u.cfg, msg)
					}
				}
			},
		})
		cl.done(nontrivialCopy || nontrivialBuffered)
	})
}

// observe records the object's current observation together with the rank probes it was taken with.
func (p *popSk) observe() {
	u := p.u
	ep, en := u.k.expectPos(u.cfg), u.k.expectNeg(u.cfg)
	p.rp, p.rn = ep.ProbeRanks(u.bud.HalfQuantum(), 4), en.ProbeRanks(u.bud.HalfQuantum(), 4)
	p.last = obs.Sketch(u.s, obs.DefaultQs, p.rp, p.rn)
}

func storesOf(s obs.SK) []store.Store { return []store.Store{s.Pos(), s.Neg()} }

func abs(x float64) float64 {
	if x < 0 {
		return -x
	}
	return x
}

// ---------------------------------------------------------------- stores

var c14StoreMut = []string{"simple", "simple", "simple", "merge", "decmerge", "protomerge", "clear", "reweight", "encdec", "encdouble", "proto"}
var c14StoreRead = []string{"observe", "foreach-stop", "bins", "keyatrank", "toproto", "encodeproto", "encode", "copy", "copy", "merge-argument"}

type popSt struct {
	u            *storeUnderTest
	last         obs.StoreObs
	lastRanks    []float64
	copyPartner  int
	mutAfter     bool
	readBuffered bool
}

func TestC14_Stores(t *testing.T) {
	rapid.Check(t, func(t *rapid.T) {
		cl := newCase("C14")
		bud := model.NewBudget(gen.Quantum)
		span := rapid.SampledFrom([]int{3, 40, 100, 300, 2000}).Draw(t, "span")
		base := gen.ClusterBase(span+2).Draw(t, "base")
		g := &opGen{base: base, span: span, bud: bud, kinds: c14StoreMut}
		cl.logf("C14 stores base=%d span=%d", base, span)
		cl.label("level:store")
		newObj := func(t *rapid.T) *popSt {
			k := gen.AnyKind().Draw(t, "kind")
			u := newSUT(k, bud, cl)
			cl.label("kind:" + k.Name)
			p := &popSt{u: u, copyPartner: -1}
			p.lastRanks = u.ranks()
			p.last = obs.Store(u.s, p.lastRanks)
			return p
		}
		pop := []*popSt{newObj(t)}
		refresh := func(i int) {
			p := pop[i]
			p.lastRanks = p.u.ranks()
			p.last = obs.Store(p.u.s, p.lastRanks)
		}
		checkOthers := func(t *rapid.T, except int, what string) {
			for j, p := range pop {
				if j == except {
					continue
				}
				if dd := obs.DiffStore(obs.Store(p.u.s, p.lastRanks), p.last); dd != "" {
					t.Fatalf("C14: %s changed store %d (%s), which was not its target: %s", what, j, p.u.kind, dd)
				}
			}
		}
		nontrivialCopy, nontrivialBuffered := false, false
		t.Repeat(map[string]func(*rapid.T){
			"new": func(t *rapid.T) {
				if len(pop) >= 4 {
					t.Skip("population full")
				}
				pop = append(pop, newObj(t))
				cl.logf("new store %d: %s", len(pop)-1, pop[len(pop)-1].u.kind)
			},
			"mutate": func(t *rapid.T) {
				i := rapid.IntRange(0, len(pop)-1).Draw(t, "obj")
				p := pop[i]
				op := g.drawOp(t, p.u)
				cl.logf("store %d: %s", i, op)
				if msg := p.u.apply(op); msg != "" {
					t.Fatalf("C14 store %d (%s) after %s: %s", i, p.u.kind, op, msg)
				}
				if msg := p.u.invariant(); msg != "" {
					t.Fatalf("C14 store %d (%s) after %s: differs from the model %s: %s", i, p.u.kind, op, p.u.exp(), msg)
				}
				checkOthers(t, i, fmt.Sprintf("%s on store %d", op, i))
				refresh(i)
				if p.readBuffered {
					nontrivialBuffered = true
					cl.label("mutation-after-read-on-buffered-paginated")
				}
				if p.copyPartner >= 0 {
					p.mutAfter = true
					if q := pop[p.copyPartner]; q.mutAfter && q.copyPartner == i {
						nontrivialCopy = true
						cl.label("copy-then-mutations-on-both-sides")
					}
				}
			},
			"read": func(t *rapid.T) {
				i := rapid.IntRange(0, len(pop)-1).Draw(t, "obj")
				p := pop[i]
				u := p.u
				kind := rapid.SampledFrom(c14StoreRead).Draw(t, "read")
				cl.logf("store %d: read %s", i, kind)
				cl.label("read:" + kind)
				if layout.Enabled && layout.Of(u.s).BufferLen > 0 {
					p.readBuffered = true
				}
				mutated := -1
				switch kind {
				case "observe":
					_ = u.snapshot()
				case "foreach-stop":
					if msg := u.partialForEach(rapid.IntRange(1, 6).Draw(t, "stopAt")); msg != "" {
						t.Fatalf("C14 store %d: %s", i, msg)
					}
				case "bins":
					for range u.s.Bins() {
					}
				case "keyatrank":
					_ = u.s.KeyAtRank(rapid.Float64Range(-1, 300).Draw(t, "rank"))
				case "toproto":
					if _, err := proto.Marshal(u.s.ToProto()); err != nil {
						t.Fatalf("C14: Marshal: %v", err)
					}
				case "encodeproto":
					var buf bytes.Buffer
					u.s.EncodeProto(sketchpb.NewStoreBuilder(&buf))
				case "encode":
					b := rapid.SliceOfN(rapid.Byte(), 0, 5).Draw(t, "prefix")
					u.s.Encode(&b, enc.FlagTypeNegativeStore)
				case "copy":
					cp := &storeUnderTest{kind: u.kind, s: u.s.Copy(), m: u.m.Copy(), bud: bud, cl: cl, events: map[string]int{}, indexes: map[int]bool{}, mutKind: map[string]bool{}}
					cp.lastLay = layout.Of(cp.s)
					np := &popSt{u: cp, copyPartner: i, lastRanks: p.lastRanks}
					np.last = obs.Store(cp.s, np.lastRanks)
					if dd := obs.DiffStore(np.last, p.last); dd != "" {
						t.Fatalf("C14: the copy of store %d (%s) does not answer like its original: %s", i, u.kind, dd)
					}
					if len(pop) >= 4 {
						j := (i + 1 + rapid.IntRange(0, len(pop)-2).Draw(t, "replace")) % len(pop)
						for _, q := range pop {
							if q.copyPartner == j {
								q.copyPartner = -1
							}
						}
						pop[j] = np
						p.copyPartner, p.mutAfter = j, false
					} else {
						pop = append(pop, np)
						p.copyPartner, p.mutAfter = len(pop)-1, false
					}
				case "merge-argument":
					if len(pop) < 2 {
						t.Skip("needs two stores")
					}
					j := (i + 1 + rapid.IntRange(0, len(pop)-2).Draw(t, "receiver")) % len(pop)
					r := pop[j].u
					if !bud.Fits(r.m.Total() + u.m.Total()) {
						t.Skip("budget")
					}
					r.s.MergeWith(u.s)
					r.m.Merge(u.exp())
					if msg := r.invariant(); msg != "" {
						t.Fatalf("C14: receiver store %d (%s) after merging store %d (%s): %s", j, r.kind, i, u.kind, msg)
					}
					cl.label(fmt.Sprintf("merge:%s<-%s", r.kind.Name, u.kind.Name))
					mutated = j
					if pop[j].copyPartner >= 0 {
						pop[j].mutAfter = true
					}
				}
				checkOthers(t, mutated, fmt.Sprintf("read-only %s on store %d", kind, i))
				if mutated >= 0 {
					refresh(mutated)
				}
			},
			"": func(t *rapid.T) {
				for j, p := range pop {
					if msg := p.u.invariant(); msg != "" {
						t.Fatalf("C14: store %d (%s) differs from its model %s: %s", j, p.u.kind, p.u.exp(), msg)
					}
				}
			},
		})
		cl.done(nontrivialCopy || nontrivialBuffered)
	})
}
