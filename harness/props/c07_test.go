package props

import (
	"fmt"
	"math"
	"testing"

	"github.com/DataDog/sketches-go/ddsketch"
	"github.com/DataDog/sketches-go/ddsketch/mapping"
	"pgregory.net/rapid"
	"verifharness/gen"
	"verifharness/model"
	"verifharness/obs"
	"verifharness/refdec"
	"verifharness/stats"
)

func init() {
	stats.Rule("C07", "rapid cases, three directions. (A) encoder conforms: sketches generated as in C06 (all store kinds, mappings, both variants, both omit settings) are encoded and read by the independent parser refdec (written from the format documentation only): it must succeed, consume every byte, meet only documented flags and recover exactly the sketch's observed bins, zero weight, mapping (kind, gamma, offset) and, for the exact variant, its statistics. (B) decoder accepts the documented language: streams are generated from the grammar, not from the encoder - blocks in any order (mapping before/between/after bins, repeated identical mapping blocks, several zero-count blocks), any of the three bin layouts for either sign, contiguous layout with negative/zero/large strides, repeated indexes within and across blocks, N=0 blocks, dyadic counts incl. 0, optional statistics blocks - and decoded into each of the five store kinds by DecodeDDSketch (and by the exact-summary decoder when statistics blocks are present); the result must equal fold_target(content the documentation assigns to the stream). (C) DecodeDDSketch on the encoding of an exact-summary sketch succeeds for every store kind and yields its bins, zero weight and mapping. Non-trivial: (A/C) source with >= 2 bins, (B) stream with >= 3 blocks and >= 2 layouts or a non-unit stride; distinct by hash of the printed case.")
}

var subToKind = map[byte]string{refdec.SubMapLog: "log", refdec.SubMapLinear: "linear", refdec.SubMapCubic: "cubic"}

// contentEquals checks that the parsed content of a stream equals the observed content of a sketch model.
func contentVsModel(c *refdec.Content, sc skCfg, k *skModel, withMapping bool) string {
	if withMapping {
		if len(c.Mappings) != 1 {
			return fmt.Sprintf("%d mapping blocks in the stream", len(c.Mappings))
		}
		g, o := gen.GammaOf(sc.m)
		mi := c.Mappings[0]
		if subToKind[mi.Sub] != gen.KindOf(sc.m) || !obs.FEq(mi.Gamma, g) || !obs.FEq(mi.Offset, o) {
			return fmt.Sprintf("mapping block says (%s, %v, %v), the sketch uses (%s, %v, %v)", subToKind[mi.Sub], mi.Gamma, mi.Offset, gen.KindOf(sc.m), g, o)
		}
	} else if len(c.Mappings) != 0 {
		return "mapping block present although omitIndexMapping was set"
	}
	if !obs.FEq(c.Zero, k.zero) {
		return fmt.Sprintf("zero count in the stream %v, sketch %v", c.Zero, k.zero)
	}
	for side, want := range []model.Map{k.expectPos(sc), k.expectNeg(sc)} {
		got := c.Bins(side == 1)
		if len(got) != len(want) {
			return fmt.Sprintf("side %d: stream holds %d non-empty bins, sketch %d (stream %v, sketch %s)", side, len(got), len(want), got, want)
		}
		for i, w := range want {
			if g, ok := got[int64(i)]; !ok || !obs.FEq(g, w) {
				return fmt.Sprintf("side %d bin %d: stream %v, sketch %v", side, i, g, w)
			}
		}
	}
	return ""
}

func TestC07_EncoderConforms(t *testing.T) {
	rapid.Check(t, func(t *rapid.T) {
		cl := newCase("C07")
		sc := drawCfg(t, cfgOpt{alphaLo: 1e-3, alphaHi: 0.3, collapsing: true, exact: 2})
		d := drawDomain(t, sc.m, 1<<12)
		bud := model.NewBudget(gen.Quantum)
		src := buildSource(t, cl, sc, d, bud, 14, "src")
		omit := rapid.Bool().Draw(t, "omit")
		cl.logf("C07/A %s omit=%v", sc, omit)
		cl.label("direction:A")
		cl.label("producer:" + sc.pos.Name)
		cl.labelIf(sc.exact, "producer:exact-variant")
		var b []byte
		src.s.Encode(&b, omit)
		content, blocks, err := refdec.Parse(b)
		if err != nil {
			t.Fatalf("C07/A %s: the encoding is not a sequence of documented blocks: %v (stream % x)", sc, err, b)
		}
		if len(blocks) > 0 && blocks[len(blocks)-1].End != len(b) {
			t.Fatalf("C07/A %s: trailing bytes after the last block", sc)
		}
		for _, blk := range blocks {
			if !refdec.FlagDefined(blk.Flag) {
				t.Fatalf("C07/A %s: undocumented flag 0x%02x at offset %d", sc, blk.Flag, blk.Start)
			}
		}
		layoutsOf(cl, b)
		if msg := contentVsModel(content, sc, src.k, !omit); msg != "" {
			t.Fatalf("C07/A %s: independent decoding of the encoding differs from the sketch: %s", sc, msg)
		}
		if sc.exact {
			count, mn, mx, _, _ := src.k.stats()
			if count > 0 {
				if !content.HasCount || !obs.FEq(content.Count, count) {
					t.Fatalf("C07/A %s: count block %v (present=%v), sketch count %v", sc, content.Count, content.HasCount, count)
				}
				if !content.HasMin || !content.HasMax || !obs.FEq(content.Min, mn) || !obs.FEq(content.Max, mx) {
					t.Fatalf("C07/A %s: min/max blocks (%v,%v), sketch (%v,%v)", sc, content.Min, content.Max, mn, mx)
				}
				if got := src.s.GetSum(); got != 0 && (!content.HasSum || !obs.FEq(content.Sum, got)) {
					t.Fatalf("C07/A %s: sum block %v (present=%v), sketch sum %v", sc, content.Sum, content.HasSum, got)
				}
			}
		} else if content.HasCount || content.HasSum || content.HasMin || content.HasMax {
			t.Fatalf("C07/A %s: a plain sketch wrote statistics blocks", sc)
		}

		// direction C: the plain decoder accepts the encoding of an exact-summary sketch and ignores the statistics
		if sc.exact {
			tk := gen.AnyKind().Draw(t, "tkind")
			tc := skCfg{spec: sc.spec, m: sc.m, pos: tk, neg: tk}
			cl.label("direction:C")
			cl.label("C-target:" + tk.Name)
			var m = sc.m
			if !omit {
				m = nil
			}
			dec, err := ddsketch.DecodeDDSketch(b, tc.provider(), m)
			if err != nil {
				t.Fatalf("C07/C: DecodeDDSketch(encoding of an exact-summary sketch %s) into %s failed: %v", sc, tk, err)
			}
			tkm := foldInto(tc, sc, src.k)
			if msg := checkAgainstModel(obs.SK{Plain: dec}, tc, tkm, bud); msg != "" {
				t.Fatalf("C07/C %s -> %s: %s", sc, tk, msg)
			}
			if !dec.IndexMapping.Equals(sc.m) {
				t.Fatalf("C07/C: decoded mapping differs")
			}
		}
		checkVanishedEncoding(t, cl, "C07/A", sc, src.s, omit)
		nb := len(src.k.expectPos(sc))
		if n := len(src.k.expectNeg(sc)); n > nb {
			nb = n
		}
		cl.done(nb >= 2)
	})
}

// checkVanishedEncoding: a copy of the sketch is reweighted until every weight has underflowed to exactly 0 (its
// stores may keep entries, pages or array slots of weight 0); its encoding must still be a well-formed stream that
// every decoder accepts and that carries no weight.
func checkVanishedEncoding(t *rapid.T, cl *caseLog, prop string, sc skCfg, s obs.SK, omit bool) {
	v := s.Copy()
	for i := 0; i < 3; i++ {
		if err := v.Reweight(0x1p-600); err != nil {
			t.Fatalf("%s %s: Reweight(2^-600) refused: %v", prop, sc, err)
		}
	}
	var b []byte
	v.Encode(&b, omit)
	content, blocks, err := refdec.Parse(b)
	if err != nil {
		t.Fatalf("%s %s: after every weight underflowed to 0 the encoding is not a sequence of documented blocks: %v (stream % x)", prop, sc, err, b)
	}
	if len(blocks) > 0 && blocks[len(blocks)-1].End != len(b) {
		t.Fatalf("%s %s: (weights underflowed to 0) trailing bytes after the last block", prop, sc)
	}
	for _, neg := range []bool{false, true} {
		for i, c := range content.Bins(neg) {
			if c != 0 {
				t.Fatalf("%s %s: (weights underflowed to 0) the encoding carries weight %v at index %d", prop, sc, c, i)
			}
		}
	}
	for _, tk := range []gen.StoreKind{{Name: "dense"}, {Name: "sparse"}, {Name: "paginated"}, {Name: "collow", N: 8}, {Name: "colhigh", N: 8}} {
		tc := skCfg{spec: sc.spec, m: sc.m, pos: tk, neg: tk}
		dec, err := ddsketch.DecodeDDSketch(b, tc.provider(), sc.m)
		if err != nil {
			t.Fatalf("%s %s: (weights underflowed to 0) DecodeDDSketch into %s refused the sketch's own encoding: %v (stream % x)", prop, sc, tk, err, b)
		}
		if dec.GetCount() != 0 {
			t.Fatalf("%s %s: (weights underflowed to 0) decoded into %s: count %v", prop, sc, tk, dec.GetCount())
		}
	}
	cl.label("encoding-after-weights-underflowed-to-zero")
}

// ---------------------------------------------------------------- direction B: grammar-generated streams

type gblock struct {
	kind string // mapping zero pos neg count sum min max
	desc string
}

func TestC07_DecoderAcceptsGrammar(t *testing.T) { rapid.Check(t, c07GrammarCase) }

func c07GrammarCase(t *rapid.T) {
	{
		cl := newCase("C07")
		spec, m := buildMapping(t, 1e-3, 0.3)
		gamma, offset := gen.GammaOf(m)
		sub := kindSub[gen.KindOf(m)]
		bud := model.NewBudget(gen.Quantum)
		// every index in the stream must be an index of the mapping (between the indexes of its smallest and largest indexable values)
		dom := newDomain(m)
		half := (dom.maxIdx-dom.minIdx)/2 - 2
		span := rapid.SampledFrom([]int{5, 40, 200, 2000}).Draw(t, "span")
		ext := 1000 // largest extent of a contiguous block
		if span > half/4 {
			span = half / 4
		}
		if ext > half/2 {
			ext = half / 2
		}
		mid := dom.minIdx + (dom.maxIdx-dom.minIdx)/2
		room := half - span - ext
		base := mid + rapid.IntRange(-room, room).Draw(t, "base")
		if rapid.IntRange(0, 2).Draw(t, "basenear0") == 0 && -room <= -mid && -mid <= room {
			base = rapid.IntRange(-min(room, 100000), min(room, 100000)).Draw(t, "base0") + mid
			if base-span-ext < dom.minIdx+1 || base+span+ext > dom.maxIdx-1 {
				base = mid
			}
		}
		withStats := rapid.IntRange(0, 2).Draw(t, "stats") == 0
		embedMapping := rapid.IntRange(0, 3).Draw(t, "embed") != 0
		cl.logf("C07/B %s base=%d span=%d stats=%v embed=%v", spec, base, span, withStats, embedMapping)
		cl.label("direction:B")

		nblocks := rapid.IntRange(0, 7).Draw(t, "nblocks")
		var w refdec.Builder
		total := 0.0
		layouts := map[int]bool{}
		nonUnitStride := false
		idx := func(t *rapid.T) int64 { return int64(base + rapid.IntRange(-span, span).Draw(t, "i")) }
		cnt := func(t *rapid.T) float64 {
			c := gen.Weight(true).Draw(t, "c")
			if !bud.Fits(total + c) {
				return 0
			}
			total += c
			return c
		}
		mappingAt := map[int]bool{}
		if embedMapping {
			n := rapid.IntRange(1, 3).Draw(t, "nmappings")
			for i := 0; i < n; i++ {
				mappingAt[rapid.IntRange(0, nblocks).Draw(t, "mappingpos")] = true
			}
			cl.labelIf(n > 1, "repeated-mapping-block")
		}
		statsAt := -1
		if withStats {
			statsAt = rapid.IntRange(0, nblocks).Draw(t, "statspos")
		}
		seenIdx := [2]map[int64]bool{{}, {}}
		var stCount, stSum float64
		stMin, stMax := math.Inf(1), math.Inf(-1)
		emitStats := func(t *rapid.T) {
			// count first or not: any order
			parts := rapid.Permutation([]string{"count", "sum", "min", "max"}).Draw(t, "statorder")
			c := float64(rapid.IntRange(1, 1000).Draw(t, "stcount"))
			lo := rapid.Float64Range(-100, 100).Draw(t, "stmin")
			hi := lo + rapid.Float64Range(0, 100).Draw(t, "stspan")
			su := rapid.Float64Range(-1e6, 1e6).Draw(t, "stsum")
			for _, p := range parts {
				switch p {
				case "count":
					w.Count(c)
					stCount += c
				case "sum":
					w.Stat(refdec.SubSum, su)
					stSum += su
				case "min":
					w.Stat(refdec.SubMin, lo)
					stMin = math.Min(stMin, lo)
				case "max":
					w.Stat(refdec.SubMax, hi)
					stMax = math.Max(stMax, hi)
				}
			}
			cl.logf("block stats order=%v count=%v sum=%v min=%v max=%v", parts, c, su, lo, hi)
		}
		blocksWritten := 0
		afterManyUnits, lastManyN := false, 0
		for bi := 0; bi <= nblocks; bi++ {
			if mappingAt[bi] {
				w.Mapping(sub, gamma, offset)
				cl.logf("block mapping")
				blocksWritten++
				cl.labelIf(bi > 0 && bi < nblocks, "mapping-between-bins")
				cl.labelIf(bi == nblocks && nblocks > 0, "mapping-after-bins")
			}
			if bi == statsAt {
				emitStats(t)
				blocksWritten += 4
			}
			if bi == nblocks {
				break
			}
			blockKinds := []string{"zero", "dc", "dc", "d", "d", "c", "c", "c", "empty", "manyunits"}
			if afterManyUnits {
				// what follows a long run of scattered unit-weight bins matters most when it is an index-delta block (also an empty one)
				blockKinds = []string{"d", "d", "d", "empty", "c", "manyunits"}
			}
			bk := rapid.SampledFrom(blockKinds).Draw(t, "blockkind")
			cl.labelIf(afterManyUnits && lastManyN >= 97 && bk == "d", "deltas-block-after-many-unit-bins")
			afterManyUnits = bk == "manyunits"
			switch bk {
			case "manyunits":
				// 50..300 bins of weight exactly 1 on scattered indexes (fewer than a page's worth per page): a consumer that
				// buffers unit weights holds them all, past its compaction thresholds, when the next block arrives
				neg := rapid.Bool().Draw(t, "neg")
				n := rapid.IntRange(50, 300).Draw(t, "nunits")
				if !bud.Fits(total + float64(n)) {
					n = 0
				}
				total += float64(n)
				s := 0
				if neg {
					s = 1
				}
				if rapid.Bool().Draw(t, "unitscontiguous") {
					stride := int64(rapid.SampledFrom([]int{33, 34, 40, 64, -33, 100}).Draw(t, "unitstride"))
					for int64(n-1)*abs64(stride) > int64(2*span+ext) && n > 1 {
						n--
					}
					first := int64(base - span)
					if stride < 0 {
						first = int64(base + span + ext)
					}
					counts := make([]float64, n)
					for i := range counts {
						counts[i] = 1
						seenIdx[s][first+int64(i)*stride] = true
					}
					w.Contiguous(neg, first, stride, counts)
					layouts[refdec.LayoutContiguous] = true
					nonUnitStride = true
					cl.logf("block contiguous neg=%v first=%d stride=%d n=%d unit counts", neg, first, stride, n)
				} else {
					bins := make([]refdec.BinAdd, n)
					for i := range bins {
						bins[i] = refdec.BinAdd{Index: idx(t), Count: 1}
						seenIdx[s][bins[i].Index] = true
					}
					w.DeltasCounts(neg, bins)
					layouts[refdec.LayoutDeltasCounts] = true
					cl.logf("block deltas+counts neg=%v n=%d unit counts on scattered indexes", neg, n)
				}
				lastManyN = n
			case "zero":
				c := cnt(t)
				w.Zero(c)
				cl.logf("block zero %v", c)
				cl.label("zero-block")
			case "dc":
				neg := rapid.Bool().Draw(t, "neg")
				n := rapid.IntRange(1, 12).Draw(t, "n")
				bins := make([]refdec.BinAdd, n)
				for i := range bins {
					bins[i] = refdec.BinAdd{Index: idx(t), Count: cnt(t)}
					if i > 0 && rapid.IntRange(0, 5).Draw(t, "repeat") == 0 {
						bins[i].Index = bins[rapid.IntRange(0, i-1).Draw(t, "repeatof")].Index
					}
					s := 0
					if neg {
						s = 1
					}
					if seenIdx[s][bins[i].Index] {
						cl.label("repeated-index")
					}
					seenIdx[s][bins[i].Index] = true
				}
				w.DeltasCounts(neg, bins)
				layouts[refdec.LayoutDeltasCounts] = true
				cl.logf("block deltas+counts neg=%v %v", neg, bins)
			case "d":
				neg := rapid.Bool().Draw(t, "neg")
				n := rapid.IntRange(1, 40).Draw(t, "n")
				if !bud.Fits(total + float64(n)) {
					n = 0
				}
				total += float64(n)
				is := make([]int64, n)
				for i := range is {
					is[i] = idx(t)
					if i > 0 && rapid.IntRange(0, 3).Draw(t, "near") != 0 {
						is[i] = is[i-1] + int64(rapid.IntRange(-2, 2).Draw(t, "step"))
					}
					s := 0
					if neg {
						s = 1
					}
					if seenIdx[s][is[i]] {
						cl.label("repeated-index")
					}
					seenIdx[s][is[i]] = true
				}
				w.Deltas(neg, is)
				layouts[refdec.LayoutDeltas] = true
				cl.logf("block deltas neg=%v %v", neg, is)
			case "c":
				neg := rapid.Bool().Draw(t, "neg")
				stride := int64(rapid.SampledFrom([]int{1, 1, 1, 0, -1, 2, -3, 31, 32, 33, -32, 64, 100, -100, 1000}).Draw(t, "stride"))
				n := rapid.IntRange(1, 40).Draw(t, "n")
				if stride != 0 {
					for int64(n-1)*abs64(stride) > int64(ext) && n > 1 {
						n--
					}
				}
				first := idx(t)
				counts := make([]float64, n)
				for i := range counts {
					counts[i] = cnt(t)
				}
				w.Contiguous(neg, first, stride, counts)
				layouts[refdec.LayoutContiguous] = true
				if stride != 1 {
					nonUnitStride = true
					cl.label(fmt.Sprintf("stride:%s", strideClass(stride)))
				}
				cl.logf("block contiguous neg=%v first=%d stride=%d %v", neg, first, stride, counts)
			case "empty":
				neg := rapid.Bool().Draw(t, "neg")
				switch rapid.IntRange(0, 2).Draw(t, "emptylayout") {
				case 0:
					w.DeltasCounts(neg, nil)
				case 1:
					w.Deltas(neg, nil)
				default:
					w.Contiguous(neg, idx(t), 1, nil)
				}
				cl.label("N=0-block")
				cl.logf("block with N=0 neg=%v", neg)
			}
			blocksWritten++
		}
		stream := w.B
		content, _, err := refdec.Parse(stream)
		if err != nil {
			t.Fatalf("C07/B harness: generated stream does not parse: %v", err)
		}
		// expected content according to the documentation
		exp := newSkModel(m)
		for i, c := range content.Bins(false) {
			exp.pos.Add(int(i), c)
		}
		for i, c := range content.Bins(true) {
			exp.neg.Add(int(i), c)
		}
		exp.zero = content.Zero
		for _, tk := range []gen.StoreKind{{Name: "dense"}, {Name: "sparse"}, {Name: "paginated"}, {Name: "collow", N: gen.BinLimit().Draw(t, "Nlow")}, {Name: "colhigh", N: gen.BinLimit().Draw(t, "Nhigh")}} {
			tc := skCfg{spec: spec, m: m, pos: tk, neg: tk}
			supplied := m
			if embedMapping && rapid.Bool().Draw(t, "mappingnotsupplied") {
				supplied = nil
			}
			dec, err := ddsketch.DecodeDDSketch(stream, tc.provider(), supplied)
			if err != nil {
				t.Fatalf("C07/B: DecodeDDSketch into %s refused a well-formed stream: %v\nstream: % x", tk, err, stream)
			}
			if msg := checkAgainstModel(obs.SK{Plain: dec}, tc, exp, bud); msg != "" {
				t.Fatalf("C07/B: well-formed stream decoded into %s differs from its documented content: %s\nstream: % x", tk, msg, stream)
			}
			if !dec.IndexMapping.Equals(m) {
				t.Fatalf("C07/B: decoded mapping differs")
			}
			cl.label("target:" + tk.Name)
			if withStats {
				ed, err := ddsketch.DecodeDDSketchWithExactSummaryStatistics(stream, tc.provider(), supplied)
				if err != nil {
					t.Fatalf("C07/B: exact-summary decoder into %s refused a well-formed stream with statistics blocks: %v\nstream: % x", tk, err, stream)
				}
				if !obs.FEq(ed.GetCount(), stCount) || !obs.FEq(ed.GetSum(), stSum) {
					t.Fatalf("C07/B exact decoder: count/sum = (%v,%v), blocks say (%v,%v)", ed.GetCount(), ed.GetSum(), stCount, stSum)
				}
				if !ed.DDSketch.IsEmpty() {
					mn, _ := ed.GetMinValue()
					mx, _ := ed.GetMaxValue()
					if !(mn == stMin) || !(mx == stMax) { // numeric equality: the sign of a zero extreme is not part of the format
						t.Fatalf("C07/B exact decoder: min/max = (%v,%v), blocks say (%v,%v)", mn, mx, stMin, stMax)
					}
				}
				inner := obs.SK{Plain: ed.DDSketch}
				if msg := checkAgainstModel(inner, tc, exp, bud); msg != "" {
					t.Fatalf("C07/B exact decoder into %s: bins differ from the documented content: %s", tk, msg)
				}
				cl.label("exact-decoder")
			}
		}
		stats.Count("C07", "grammar_streams_decoded", 5)
		cl.labelIf(len(layouts) >= 2, "multi-layout")
		cl.done(blocksWritten >= 3 && (len(layouts) >= 2 || nonUnitStride))
	}
}

func abs64(x int64) int64 {
	if x < 0 {
		return -x
	}
	return x
}

func strideClass(s int64) string {
	switch {
	case s == 0:
		return "zero"
	case s < 0:
		return "negative"
	case s >= 31:
		return "large"
	}
	return "small"
}

// Native fuzz target over direction B (thorough tier): the rapid property driven by the fuzzer's bytes.
func FuzzC07Grammar(f *testing.F) {
	f.Add([]byte{0, 1, 2, 3, 4, 5, 6, 7, 8, 9, 10, 11, 12, 13, 14, 15})
	f.Fuzz(rapid.MakeFuzz(c07GrammarCase))
}

// TestC07_FarIndexes: mappings with a very fine (legal) accuracy put the two ends of the indexable range more
// than 2^32 indexes apart, so that encoded index deltas do not fit in 32 bits. Producers and consumers are the
// stores that can hold such indexes (sparse; buffered-paginated with unit weights only, which stay in its buffer).
// farSource builds a sketch at a very fine accuracy whose bins can lie more than 2^31 indexes apart (sparse producer,
// or paginated producer fed unit weights only: both keep such bins without allocating what lies between them).
type farSrc struct {
	spec     gen.MapSpec
	m        mapping.IndexMapping
	kind     string
	alpha    float64
	prodKind string
	unitOnly bool
	sc       skCfg
	s        obs.SK
	k        *skModel
	span     int
}

func farSource(t *rapid.T, cl *caseLog, prop string, unitOnlyForced bool, like *farSrc) farSrc {
	var f farSrc
	if like != nil {
		f.alpha, f.kind = like.alpha, like.kind
	} else {
		f.alpha = rapid.SampledFrom([]float64{1e-7, 1.5e-7, 2e-7, 3e-7, 1e-6}).Draw(t, "alpha")
		f.kind = rapid.SampledFrom(gen.MapKinds).Draw(t, "mkind")
	}
	f.spec = gen.MapSpec{Kind: f.kind, FromAlpha: true, Alpha: f.alpha, Nominal: f.alpha}
	m, err := f.spec.Build()
	if err != nil {
		t.Fatalf("%s: %v", prop, err)
	}
	f.m = m
	d := newDomain(m)
	f.unitOnly = unitOnlyForced || rapid.Bool().Draw(t, "unitonly")
	f.prodKind = "sparse"
	if f.unitOnly && rapid.Bool().Draw(t, "paginatedproducer") {
		f.prodKind = "paginated"
	}
	f.sc = skCfg{spec: f.spec, m: m, pos: gen.StoreKind{Name: f.prodKind}, neg: gen.StoreKind{Name: f.prodKind}}
	f.s = f.sc.new()
	f.k = newSkModel(m)
	n := rapid.IntRange(2, 12).Draw(t, "n")
	var seenFar map[int]bool
	cl.logf("%s far indexes %s producer=%s unitOnly=%v index range [%d,%d]", prop, f.spec, f.prodKind, f.unitOnly, d.minIdx, d.maxIdx)
	for i := 0; i < n; i++ {
		var idx int
		switch rapid.IntRange(0, 3).Draw(t, "where") {
		case 0:
			idx = d.minIdx + rapid.IntRange(0, 1000).Draw(t, "lowoff")
		case 1:
			idx = d.maxIdx - rapid.IntRange(0, 1000).Draw(t, "highoff")
		default:
			idx = rapid.IntRange(d.minIdx, d.maxIdx).Draw(t, "idx")
		}
		v := d.clamp(m.Value(idx))
		if rapid.Bool().Draw(t, "negside") {
			v = -v
		}
		w := 1.0
		if !f.unitOnly {
			w = gen.LightWeight().Draw(t, "w")
		} else {
			// one unit per bin: a bin of weight 2 would be written with its count and make a paginated consumer
			// allocate a page - and, with two such bins at both ends of the range, a page table of gigabytes
			key := m.Index(math.Abs(v))
			if v < 0 {
				key = -key - 1<<40
			}
			if seenFar == nil {
				seenFar = map[int]bool{}
			}
			if seenFar[key] {
				continue
			}
			seenFar[key] = true
		}
		if err := f.s.AddWithCount(v, w); err != nil {
			t.Fatalf("%s far: AddWithCount(%v,%v): %v", prop, v, w, err)
		}
		f.k.add(v, w)
		cl.logf("(%v,%v) index %d", v, w, m.Index(math.Abs(v)))
	}
	for _, mm := range []model.Map{f.k.pos, f.k.neg} {
		if mn, mx, ok := mm.MinMax(); ok && mx-mn > f.span {
			f.span = mx - mn
		}
	}
	return f
}

func TestC07_FarIndexes(t *testing.T) {
	rapid.Check(t, func(t *rapid.T) {
		cl := newCase("C07")
		src := farSource(t, cl, "C07", false, nil)
		spec, m, kind, alpha, prodKind, unitOnly, sc, s, k, span := src.spec, src.m, src.kind, src.alpha, src.prodKind, src.unitOnly, src.sc, src.s, src.k, src.span
		bud := model.NewBudget(gen.Quantum)
		cl.labelIf(span > math.MaxInt32, "index-delta-beyond-int32")
		cl.label("direction:far-indexes")
		var b []byte
		s.Encode(&b, false)
		content, _, err := refdec.Parse(b)
		if err != nil {
			t.Fatalf("C07 far: the encoding does not parse: %v", err)
		}
		if msg := contentVsModel(content, sc, k, true); msg != "" {
			t.Fatalf("C07 far %s: independent decoding differs from the sketch: %s", sc, msg)
		}
		targets := []string{"sparse"}
		if unitOnly {
			targets = append(targets, "paginated")
		}
		for _, tk := range targets {
			tc := skCfg{spec: spec, m: m, pos: gen.StoreKind{Name: tk}, neg: gen.StoreKind{Name: tk}}
			dec, err := ddsketch.DecodeDDSketch(b, tc.provider(), nil)
			if err != nil {
				t.Fatalf("C07 far: DecodeDDSketch of a valid encoding (producer %s, alpha %v, index span %d) into %s failed: %v", prodKind, alpha, span, tk, err)
			}
			if msg := checkAgainstModel(obs.SK{Plain: dec}, tc, k, bud); msg != "" {
				t.Fatalf("C07 far -> %s: %s", tk, msg)
			}
		}
		// grammar direction: the same content written by the reference writer in the deltas+counts layout, indexes in shuffled order
		var w refdec.Builder
		w.Mapping(kindSub[kind], func() float64 { g, _ := gen.GammaOf(m); return g }(), func() float64 { _, o := gen.GammaOf(m); return o }())
		for side, mm := range []model.Map{k.pos, k.neg} {
			bins := mm.Sorted()
			perm := rapid.Permutation(bins).Draw(t, "binorder")
			var adds []refdec.BinAdd
			for _, x := range perm {
				adds = append(adds, refdec.BinAdd{Index: int64(x.Index), Count: x.Count})
			}
			if len(adds) > 0 {
				w.DeltasCounts(side == 1, adds)
			}
		}
		if k.zero != 0 {
			w.Zero(k.zero)
		}
		tc := skCfg{spec: spec, m: m, pos: gen.StoreKind{Name: "sparse"}, neg: gen.StoreKind{Name: "sparse"}}
		dec, err := ddsketch.DecodeDDSketch(w.B, tc.provider(), nil)
		if err != nil {
			t.Fatalf("C07 far/B: DecodeDDSketch refused a well-formed stream whose index deltas exceed 32 bits: %v", err)
		}
		if msg := checkAgainstModel(obs.SK{Plain: dec}, tc, k, bud); msg != "" {
			t.Fatalf("C07 far/B: %s", msg)
		}
		cl.done(span > math.MaxInt32)
	})
}

// TestC07_PlainDecodesExactLongCount: direction C with a count block that takes all nine varfloat bytes. The total
// weight of an exact-summary sketch is an integer in [2^51, 2^53) or a fraction with a full 52-bit significand (one
// weighted add, or two whose sum is exact), so that the ninth byte of the count carries arbitrary bits, the top one
// included; the plain decoder must skip exactly that block and decode the rest into every store kind.
func TestC07_PlainDecodesExactLongCount(t *testing.T) {
	rapid.Check(t, func(t *rapid.T) { plainDecodesExactLongCount(t, "C07") })
}

// TestC06_ExactProducerLongCount: the same cases counted under C06 ("encoding any sketch" includes the exact-summary
// variant, and the plain decoder is one way of decoding its bytes): same bins, same zero weight, same count.
func TestC06_ExactProducerLongCount(t *testing.T) {
	rapid.Check(t, func(t *rapid.T) { plainDecodesExactLongCount(t, "C06") })
}

func plainDecodesExactLongCount(t *rapid.T, prop string) {
	{
		cl := newCase(prop)
		cl.label("direction:C")
		spec, m := buildMapping(t, 1e-3, 0.3)
		var w float64
		switch rapid.IntRange(0, 3).Draw(t, "wclass") {
		case 0:
			w = rapid.SampledFrom([]float64{0x1p52 + 1, 0x1p52 + 2, 0x1p53 - 3, 0x1p53 - 1, 0x1p51 + 1, 0.5 + 0x1p-51, 1.5 + 0x1p-52, 0x1p52}).Draw(t, "wnamed")
		case 1:
			w = float64(rapid.Uint64Range(1<<51, 1<<53-1).Draw(t, "wint"))
		default:
			w = math.Float64frombits(rapid.Uint64Range(math.Float64bits(0x1p-30), math.Float64bits(0x1p52)).Draw(t, "wbits"))
		}
		prodKind := gen.NonCollapsingKind().Draw(t, "prodkind")
		sc := skCfg{spec: spec, m: m, pos: prodKind, neg: prodKind, exact: true}
		src := sc.new()
		v := gen.ClampPos(m, rapid.SampledFrom([]float64{1, 2.5, 1000, 1e-3}).Draw(t, "v"))
		if rapid.Bool().Draw(t, "neg") {
			v = -v
		}
		if rapid.IntRange(0, 4).Draw(t, "zero") == 0 {
			v = 0
		}
		if err := src.AddWithCount(v, w); err != nil {
			t.Fatalf(prop+"/C long count: AddWithCount(%v,%v): %v", v, w, err)
		}
		cl.logf(prop+"/C long count %s producer=%s value %v weight %x", spec, prodKind, v, math.Float64bits(w))
		omit := rapid.Bool().Draw(t, "omit")
		var b []byte
		src.Encode(&b, omit)
		content, _, err := refdec.Parse(b)
		if err != nil {
			t.Fatalf(prop+"/C long count: the encoding does not parse: %v", err)
		}
		if !content.HasCount || !obs.FEq(content.Count, refdec.VarfloatTransform(w)) {
			t.Fatalf(prop+"/C long count: count block %v (present=%v), total weight %v", content.Count, content.HasCount, w)
		}
		cl.labelIf(refdec.VarfloatLen(w) == 9, "count-block:9-bytes")
		cl.labelIf(refdec.VarfloatLen(w) == 9 && refdec.AppendVarfloat(nil, w)[8] >= 0x80, "count-block:9th-byte-top-bit")
		want := refdec.VarfloatTransform(w)
		for _, tk := range []gen.StoreKind{{Name: "dense"}, {Name: "sparse"}, {Name: "paginated"}, {Name: "collow", N: 4}, {Name: "colhigh", N: 4}} {
			var sup mapping.IndexMapping
			if omit {
				sup = m
			}
			dec, err := ddsketch.DecodeDDSketch(b, tk.Provider(), sup)
			if err != nil {
				t.Fatalf(prop+"/C long count: DecodeDDSketch(encoding of an exact-summary sketch of total weight %v) into %s failed: %v (stream % x)", w, tk, err, b)
			}
			got := map[float64]float64{}
			dec.ForEach(func(x, c float64) bool { got[x] += c; return false })
			if len(got) != 1 || !obs.FEq(dec.GetCount(), want) {
				t.Fatalf(prop+"/C long count -> %s: decoded bins %v count %v, want one bin of weight %v", tk, got, dec.GetCount(), want)
			}
			// and as a decode-merge into a non-empty plain sketch
			r := ddsketch.NewDDSketch(m, tk.New(), tk.New())
			_ = r.Add(gen.ClampPos(m, 7))
			if err := r.DecodeAndMergeWith(b); err != nil {
				t.Fatalf(prop+"/C long count: DecodeAndMergeWith into a non-empty %s sketch failed: %v", tk, err)
			}
		}
		cl.done(true)
	}
}

// TestC07_PowerOfTwoIndexes: bin indexes and index deltas that are exactly 2^k or next to it (k = 6, 7, 13, 14, 20,
// 21, 27, 28: where the varint encodings change length), obtained with a logarithmic mapping whose index offset is
// such an integer (the value 1 then has exactly that index) and values gamma^(2^k) above it.
func TestC07_PowerOfTwoIndexes(t *testing.T) {
	rapid.Check(t, func(t *rapid.T) {
		cl := newCase("C07")
		cl.label("direction:power-of-two-indexes")
		alpha := rapid.SampledFrom([]float64{1e-6, 1e-5, 3e-5}).Draw(t, "alpha")
		g := (1 + alpha) / (1 - alpha)
		pow := func() int { return 1 << rapid.SampledFrom([]int{6, 7, 13, 14, 20, 21, 27, 28}).Draw(t, "k") }
		off := pow() + rapid.IntRange(-1, 1).Draw(t, "offd")
		if rapid.Bool().Draw(t, "negoff") {
			off = -off
		}
		spec := gen.MapSpec{Kind: "log", Gamma: g, Offset: float64(off), Nominal: alpha}
		m, err := spec.Build()
		if err != nil {
			t.Fatalf("C07 pow2: %v", err)
		}
		prodKind := rapid.SampledFrom([]string{"sparse", "paginated"}).Draw(t, "prod")
		sc := skCfg{spec: spec, m: m, pos: gen.StoreKind{Name: prodKind}, neg: gen.StoreKind{Name: prodKind}}
		s := sc.new()
		k := newSkModel(m)
		bud := model.NewBudget(gen.Quantum)
		add := func(v float64) {
			if v > m.MaxIndexableValue() || v < m.MinIndexableValue() {
				return
			}
			if rapid.Bool().Draw(t, "negside") {
				v = -v
			}
			if err := s.Add(v); err != nil {
				t.Fatalf("C07 pow2: Add(%v): %v", v, err)
			}
			k.add(v, 1)
			cl.logf("Add(%v) index %d", v, m.Index(math.Abs(v)))
		}
		// the middle of bin j above the bin of 1: gamma^(j+0.5)
		binMid := func(j int) float64 { return math.Exp((float64(j) + 0.5) * math.Log(g)) }
		add(binMid(0))
		n := rapid.IntRange(1, 4).Draw(t, "n")
		at := 0
		for i := 0; i < n; i++ {
			d := pow()
			if d > 1<<21 {
				d = 1 << rapid.SampledFrom([]int{6, 7, 13, 14, 20, 21}).Draw(t, "ksmall")
			}
			at += d + rapid.IntRange(-1, 1).Draw(t, "dd")
			add(binMid(at))
		}
		var b []byte
		s.Encode(&b, false)
		content, _, err := refdec.Parse(b)
		if err != nil {
			t.Fatalf("C07 pow2 %s: the encoding is not a sequence of documented blocks: %v (stream % x)", sc, err, b)
		}
		if msg := contentVsModel(content, sc, k, true); msg != "" {
			t.Fatalf("C07 pow2 %s: independent decoding of the encoding differs from the sketch: %s", sc, msg)
		}
		for _, tk := range []string{"sparse", "paginated"} {
			tc := skCfg{spec: spec, m: m, pos: gen.StoreKind{Name: tk}, neg: gen.StoreKind{Name: tk}}
			dec, err := ddsketch.DecodeDDSketch(b, tc.provider(), nil)
			if err != nil {
				t.Fatalf("C07 pow2 %s: DecodeDDSketch into %s failed: %v (stream % x)", sc, tk, err, b)
			}
			if msg := checkAgainstModel(obs.SK{Plain: dec}, tc, k, bud); msg != "" {
				t.Fatalf("C07 pow2 %s -> %s: %s", sc, tk, msg)
			}
		}
		cl.done(true)
	})
}

// TestC07_BalancedWeights: bins whose weights are not 1 but add up to the number of bins (1-d and 1+d, d a dyadic
// fraction), far enough apart for the sparse layouts, in dense-family producers (and the others): the stream, read
// as the documentation says, must carry each bin's own weight.
func TestC07_BalancedWeights(t *testing.T) {
	rapid.Check(t, func(t *rapid.T) {
		cl := newCase("C07")
		cl.label("direction:balanced-weights")
		spec, m := buildMapping(t, 1e-3, 0.3)
		kind := rapid.SampledFrom([]gen.StoreKind{{Name: "dense"}, {Name: "dense"}, {Name: "collow", N: 4096}, {Name: "colhigh", N: 4096}, {Name: "sparse"}, {Name: "paginated"}}).Draw(t, "kind")
		s := ddsketch.NewDDSketch(m, kind.New(), kind.New())
		base := m.Index(1)
		pairs := rapid.IntRange(1, 4).Draw(t, "pairs")
		want := map[int64]float64{}
		step := rapid.SampledFrom([]int{1, 2, 40, 300}).Draw(t, "step")
		if dom := newDomain(m); base+step*12 >= dom.maxIdx {
			step = max(1, (dom.maxIdx-base-1)/12)
		}
		idx := base
		units := rapid.IntRange(0, 3).Draw(t, "units")
		for p := 0; p < pairs; p++ {
			d := rapid.SampledFrom([]float64{0.5, 0.25, 0.75, 0.125}).Draw(t, "d")
			for _, w := range []float64{1 - d, 1 + d} {
				idx += step
				if err := s.AddWithCount(m.Value(idx), w); err != nil {
					t.Fatalf("C07 balanced: AddWithCount: %v", err)
				}
				want[int64(m.Index(m.Value(idx)))] += w
			}
		}
		for u := 0; u < units; u++ {
			idx += step
			_ = s.Add(m.Value(idx))
			want[int64(m.Index(m.Value(idx)))]++
		}
		var b []byte
		s.Encode(&b, rapid.Bool().Draw(t, "omit"))
		cl.logf("C07 balanced weights %s kind=%s bins=%v stream % x", spec, kind, want, b)
		pc, _, err := refdec.Parse(b)
		if err != nil {
			t.Fatalf("C07 balanced: the encoding does not parse: %v", err)
		}
		got := pc.Bins(false)
		if len(got) != len(want) {
			t.Fatalf("C07 balanced %s: the stream, read as documented, holds bins %v; the sketch holds %v", kind, got, want)
		}
		for i, w := range want {
			if got[i] != w {
				t.Fatalf("C07 balanced %s: the stream, read as documented, holds bins %v; the sketch holds %v", kind, got, want)
			}
		}
		dec, err := ddsketch.DecodeDDSketch(b, gen.StoreKind{Name: "sparse"}.Provider(), m)
		if err != nil {
			t.Fatalf("C07 balanced: DecodeDDSketch: %v", err)
		}
		back := map[int64]float64{}
		dec.GetPositiveValueStore().ForEach(func(i int, c float64) bool { back[int64(i)] += c; return false })
		for i, w := range want {
			if back[i] != w {
				t.Fatalf("C07 balanced %s: decoded bins %v, the sketch holds %v", kind, back, want)
			}
		}
		cl.done(true)
	})
}
