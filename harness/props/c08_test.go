package props

import (
	"fmt"
	"math"
	"testing"

	"github.com/DataDog/sketches-go/ddsketch"
	"github.com/DataDog/sketches-go/ddsketch/mapping"
	"pgregory.net/rapid"
	"verifharness/gen"
	"verifharness/model"
	"verifharness/obs"
	"verifharness/refdec"
	"verifharness/stats"
)

func init() {
	stats.Rule("C08", "fault enumeration: encodings are sampled (rapid: sources as in C06 - all five store kinds hence all layouts as producer, three mapping kinds, plain and exact variants, mapping embedded or omitted) and, for each encoding, the fault set is enumerated completely: (1) EVERY cut point 0..len-1, (2) at every block boundary the flag byte replaced by undefined flags (a sample of 8 per boundary in the quick tier, all of them in the thorough tier), (3) mapping mismatch (other kind, same kind with accuracy >= 0.1% apart, or same kind and base with another index offset incl. one of the two being 0) in the stream vs receiver/supplied mapping, (3b) the same mismatching stream offered three times to one persistent receiver; (4) mapping omitted and not supplied; each fault is tried against every consumer in {dense, sparse, paginated, collapsing-lowest, collapsing-highest} x {DecodeDDSketch, DecodeDDSketchWithExactSummaryStatistics, DecodeAndMergeWith into a non-empty receiver} x {mapping supplied, nil}. Oracle: no panic; a cut strictly inside a block must return an error; a cut on a block boundary must succeed when a mapping is known (supplied or among the complete blocks) and hold exactly fold_target(content of the complete blocks as read by the independent parser) (the exact-summary decoder additionally refuses non-empty content without a count, as documented); faults 2-4 must return an error; whenever err == nil the decoded content must equal the content of the complete blocks. An evaluation = one encoding with its whole fault set; non-trivial: the encoding has a bin block so that cuts fall strictly inside bin blocks (inside N, an index delta, a varfloat count); distinct by hash of the encoding.")
}

type consumer struct {
	kind     gen.StoreKind
	api      string // plain exact merge
	supplied bool
}

// runConsumer decodes b with the consumer; returns the resulting sketch (for merge: the receiver), its base model, and the error.
func runConsumer(c consumer, spec gen.MapSpec, m mapping.IndexMapping, b []byte, recvOps []kop, exactRecv bool) (s obs.SK, base *skModel, tc skCfg, err error, panicked any) {
	tc = skCfg{spec: spec, m: m, pos: c.kind, neg: c.kind}
	defer func() {
		if r := recover(); r != nil {
			panicked = r
		}
	}()
	var sup mapping.IndexMapping
	if c.supplied {
		sup = m
	}
	switch c.api {
	case "plain":
		var d *ddsketch.DDSketch
		d, err = ddsketch.DecodeDDSketch(b, tc.provider(), sup)
		return obs.SK{Plain: d}, newSkModel(m), tc, err, nil
	case "exact":
		tc.exact = true
		var d *ddsketch.DDSketchWithExactSummaryStatistics
		d, err = ddsketch.DecodeDDSketchWithExactSummaryStatistics(b, tc.provider(), sup)
		return obs.SK{Exact: d}, newSkModel(m), tc, err, nil
	default: // merge into a non-empty receiver (which has its mapping)
		tc.exact = exactRecv
		h := &kSub{cfg: tc, ops: recvOps}
		r, rk := h.build()
		err = r.DecodeAndMergeWith(b)
		return r, rk, tc, err, nil
	}
}

// prefixContent: the content of the complete blocks of stream[:cut] according to the independent parser.
func contentModel(m mapping.IndexMapping, c *refdec.Content) *skModel {
	k := newSkModel(m)
	for i, w := range c.Bins(false) {
		k.pos.Add(int(i), w)
	}
	for i, w := range c.Bins(true) {
		k.neg.Add(int(i), w)
	}
	k.zero = c.Zero
	return k
}

// binsMatch compares the bins and zero weight of s with base + add (folded by the target kind).
func binsMatch(s obs.SK, tc skCfg, base, add *skModel, bud *model.Budget) string {
	k := newSkModel(tc.m)
	k.pos, k.neg, k.zero = base.pos.Copy(), base.neg.Copy(), base.zero
	k.pos.Merge(add.pos)
	k.neg.Merge(add.neg)
	k.zero += add.zero
	inner := obs.SK{Plain: s.Inner()}
	ptc := tc
	ptc.exact = false
	return checkAgainstModel(inner, ptc, k, bud)
}

func undefinedFlags(all bool, t *rapid.T) []byte {
	var fs []byte
	for f := 0; f < 256; f++ {
		if !refdec.FlagDefined(byte(f)) {
			fs = append(fs, byte(f))
		}
	}
	if all {
		return fs
	}
	out := make([]byte, 0, 8)
	for i := 0; i < 8; i++ {
		out = append(out, fs[rapid.IntRange(0, len(fs)-1).Draw(t, "badflag")])
	}
	return out
}

var c08AllFlags = false // set by TestC08_Thorough

func c08Case(t *rapid.T) {
	cl := newCase("C08")
	sc := drawCfg(t, cfgOpt{alphaLo: 1e-3, alphaHi: 0.3, collapsing: true, exact: 2})
	d := drawDomain(t, sc.m, 1<<11)
	bud := model.NewBudget(gen.Quantum)
	src := buildSource(t, cl, sc, d, bud, 30, "src")
	if !bud.Fits(src.k.total() + 8) {
		t.Skip("no room for the receiver's weights in the exactness budget")
	}
	omit := rapid.Bool().Draw(t, "omit")
	var enc []byte
	src.s.Encode(&enc, omit)
	cl.logf("C08 %s omit=%v encoding(%d bytes)=% x", sc, omit, len(enc), enc)
	cl.label("producer:" + sc.pos.Name)
	cl.labelIf(sc.exact, "producer:exact-variant")
	cl.labelIf(omit, "mapping-omitted")
	layoutsOf(cl, enc)
	full, blocks, err := refdec.Parse(enc)
	if err != nil {
		t.Fatalf("C08: the encoding does not parse with the independent parser: %v", err)
	}
	_ = full
	// a non-empty receiver for the merge consumers (same mapping), light so that totals fit
	recvV := src.safeV
	recvOps := []kop{{Kind: "addw", V: recvV, W: 2}, {Kind: "add", V: -recvV}, {Kind: "addw", V: 0, W: 0.5}}
	var consumers []consumer
	for _, k := range []gen.StoreKind{{Name: "dense"}, {Name: "sparse"}, {Name: "paginated"}, {Name: "collow", N: gen.BinLimit().Draw(t, "Nlow")}, {Name: "colhigh", N: gen.BinLimit().Draw(t, "Nhigh")}} {
		for _, api := range []string{"plain", "exact", "merge"} {
			for _, sup := range []bool{true, false} {
				consumers = append(consumers, consumer{k, api, sup})
			}
		}
	}
	var nCuts, nInside, nInsideBin, nDecodes int64
	hasBinBlock := false
	for _, b := range blocks {
		if b.Kind == "pos" || b.Kind == "neg" {
			hasBinBlock = true
		}
	}
	// ---- fault 1: every cut point
	for cut := 0; cut < len(enc); cut++ {
		boundary, blk, field, _ := refdec.ClassifyCut(blocks, cut)
		pre := enc[:cut]
		var preContent *refdec.Content
		var preModel *skModel
		mappingInPrefix := false
		if boundary {
			pc, _, perr := refdec.Parse(pre)
			if perr != nil {
				t.Fatalf("C08 harness: prefix at block boundary %d does not parse: %v", cut, perr)
			}
			preContent, preModel = pc, contentModel(sc.m, pc)
			mappingInPrefix = len(pc.Mappings) > 0
		}
		nCuts++
		if !boundary {
			nInside++
			if blk.Kind == "pos" || blk.Kind == "neg" {
				nInsideBin++
				cl.label("cut-inside-bin-block")
				if field != nil {
					cl.label("cut:" + field.Kind + "/" + field.Role)
				}
			} else {
				cl.label("cut-inside:" + blk.Kind)
			}
		}
		for _, c := range consumers {
			if c.api == "merge" && !c.supplied {
				continue // a receiver always has its mapping: same as supplied
			}
			s, base, tc, err, pan := runConsumer(c, sc.spec, sc.m, pre, recvOps, sc.exact)
			nDecodes++
			if pan != nil {
				t.Fatalf("C08 %s: decoding the encoding cut at %d/%d bytes with %+v panicked: %v\nencoding: % x", sc, cut, len(enc), c, pan, enc)
			}
			if !boundary {
				if err == nil {
					t.Fatalf("C08 %s: the encoding cut at %d/%d bytes (strictly inside a %s block, field %v) was decoded by %+v without error\nencoding: % x", sc, cut, len(enc), blk.Kind, field, c, enc)
				}
				continue
			}
			known := c.supplied || c.api == "merge" || mappingInPrefix
			if !known {
				if err == nil {
					t.Fatalf("C08 %s: prefix of %d bytes without mapping decoded by %+v without error although no mapping was supplied", sc, cut, c)
				}
				continue
			}
			nonEmpty := preModel.total() > 0
			if c.api == "exact" && nonEmpty && !(preContent.HasCount && preContent.Count != 0) {
				// documented extra rule of the exact-summary decoder: content without a count is refused
				if err == nil {
					t.Fatalf("C08 %s: exact-summary decoder accepted non-empty content without a count block (prefix %d bytes, %+v)", sc, cut, c)
				}
				continue
			}
			if err != nil {
				t.Fatalf("C08 %s: the encoding cut at %d/%d bytes, exactly between blocks, was refused by %+v: %v\nencoding: % x", sc, cut, len(enc), c, err, enc)
			}
			if msg := binsMatch(s, tc, base, preModel, bud); msg != "" {
				t.Fatalf("C08 %s: prefix of %d bytes (complete blocks only) decoded by %+v holds other content than its complete blocks: %s\nencoding: % x", sc, cut, c, msg, enc)
			}
		}
	}
	// ---- fault 2: undefined flag at a block boundary
	var nFlag int64
	for _, blk := range blocks {
		for _, f := range undefinedFlags(c08AllFlags, t) {
			mut := append([]byte(nil), enc...)
			mut[blk.Start] = f
			for _, c := range consumers {
				if c.api == "merge" && !c.supplied {
					continue
				}
				_, _, _, err, pan := runConsumer(c, sc.spec, sc.m, mut, recvOps, sc.exact)
				nDecodes++
				nFlag++
				if pan != nil {
					t.Fatalf("C08 %s: undefined flag 0x%02x at offset %d made %+v panic: %v", sc, f, blk.Start, c, pan)
				}
				if err == nil {
					t.Fatalf("C08 %s: stream with the undefined flag 0x%02x at block boundary %d was decoded by %+v without error\nencoding: % x", sc, f, blk.Start, c, enc)
				}
			}
		}
	}
	cl.labelIf(nFlag > 0, "fault:undefined-flag")
	// ---- fault 3: mapping mismatch (stream carries a mapping; consumer has another one)
	if !omit {
		var others []mapping.IndexMapping
		g, o := gen.GammaOf(sc.m)
		for _, k := range gen.MapKinds {
			if k != gen.KindOf(sc.m) {
				if om, err := (gen.MapSpec{Kind: k, Gamma: g, Offset: o}).Build(); err == nil {
					others = append(others, om)
				}
			}
		}
		a := sc.m.RelativeAccuracy()
		for _, delta := range []float64{1e-3, -1e-3, 0.05} {
			if a2 := a * (1 + delta); a2 > 0 && a2 < 1 {
				if om, err := (gen.MapSpec{Kind: gen.KindOf(sc.m), FromAlpha: true, Alpha: a2}).Build(); err == nil {
					others = append(others, om)
				}
			}
		}
		// same kind and base, another index offset (values land in other bins: the mapping differs); one of the two offsets
		// exactly 0 included
		offs := []float64{o + 1, o - 1, o + 0.5, o - 7.25, o + 1e-3}
		if o != 0 {
			offs = append(offs, 0, -o)
		}
		for _, o2 := range offs {
			if math.Abs(o2-o) <= 1e-6*math.Max(1, math.Max(math.Abs(o), math.Abs(o2))) {
				continue // not a different mapping: offsets within the tolerance of Equals (tiny engineered offsets vs 0)
			}
			if om, err := (gen.MapSpec{Kind: gen.KindOf(sc.m), Gamma: g, Offset: o2}).Build(); err == nil {
				others = append(others, om)
				cl.label("fault:mapping-mismatch-offset-only")
			}
		}
		for _, om := range others {
			for _, c := range consumers {
				if !c.supplied && c.api != "merge" {
					continue
				}
				if c.api == "merge" && !c.supplied {
					continue
				}
				_, _, _, err, pan := runConsumer(c, gen.MapSpec{}, om, enc, nil, sc.exact)
				nDecodes++
				if pan != nil {
					t.Fatalf("C08 %s: mapping mismatch made %+v panic: %v", sc, c, pan)
				}
				if err == nil {
					t.Fatalf("C08 %s: stream whose mapping differs from the %s mapping of the consumer %+v was decoded without error", sc, gen.KindOf(om), c)
				}
			}
			// a persistent receiver is offered the same mismatching stream again (and again after a valid stream
			// without mapping): refused every time
			for _, kind := range []gen.StoreKind{{Name: "sparse"}, {Name: "paginated"}} {
				for _, ex := range []bool{false, true} {
					rc := skCfg{m: om, pos: kind, neg: kind, exact: ex}
					r := rc.new()
					var neutral []byte
					rc.new().Encode(&neutral, true)
					try := func(b []byte) (err error, pan any) {
						defer func() { pan = recover() }()
						return r.DecodeAndMergeWith(b), nil
					}
					for attempt := 1; attempt <= 3; attempt++ {
						err, pan := try(enc)
						nDecodes++
						if pan != nil {
							t.Fatalf("C08 %s: mapping mismatch, attempt %d on the same receiver: panic %v", sc, attempt, pan)
						}
						if err == nil {
							t.Fatalf("C08 %s: stream whose mapping differs from the receiver's (%s, exact=%v) was accepted at attempt %d on the same receiver", sc, gen.KindOf(om), ex, attempt)
						}
						if attempt == 2 {
							// a stream without mapping in between (whether it is accepted is not asserted: a refused decode may
							// have left part of its content behind, and the exact-summary decoder then asks for statistics)
							_, _ = try(neutral)
						}
					}
				}
			}
			cl.label("fault:mapping-mismatch-repeated-on-same-receiver")
		}
		cl.label("fault:mapping-mismatch")
	} else {
		// ---- fault 4: mapping omitted and not supplied
		for _, c := range consumers {
			if c.supplied || c.api == "merge" {
				continue
			}
			_, _, _, err, pan := runConsumer(c, sc.spec, sc.m, enc, nil, sc.exact)
			nDecodes++
			if pan != nil || err == nil {
				t.Fatalf("C08 %s: stream without mapping decoded by %+v with no mapping supplied: err=%v panic=%v", sc, c, err, pan)
			}
		}
		cl.label("fault:mapping-missing")
	}
	stats.Count("C08", "cuts", nCuts)
	stats.Count("C08", "cuts_strictly_inside_a_block", nInside)
	stats.Count("C08", "cuts_strictly_inside_a_bin_block", nInsideBin)
	stats.Count("C08", "undefined_flag_decodes", nFlag)
	stats.Count("C08", "decodes", nDecodes)
	stats.Count("C08", "encoded_bytes", int64(len(enc)))
	cl.labelIf(len(enc) == 0, "empty-encoding")
	cl.done(hasBinBlock && nInsideBin > 0)
}

func TestC08(t *testing.T) { rapid.Check(t, c08Case) }

// TestC08_Thorough enumerates ALL undefined flags at every block boundary.
func TestC08_Thorough(t *testing.T) {
	c08AllFlags = true
	defer func() { c08AllFlags = false }()
	rapid.Check(t, c08Case)
}

// Native fuzz target: (seed bytes for the rapid-driven encoding, cut position) with the same oracle on one consumer set.
func FuzzC08(f *testing.F) {
	f.Add([]byte{1, 2, 3, 4, 5, 6, 7, 8})
	f.Fuzz(rapid.MakeFuzz(c08Case))
}

var _ = fmt.Sprintf

// TestC08_LongVarfloats: encodings whose counts need long (up to 9-byte) varfloats - arbitrary non-dyadic
// weights, one per index so that nothing is summed - with every cut point against the non-collapsing consumers.
func TestC08_LongVarfloats(t *testing.T) {
	rapid.Check(t, func(t *rapid.T) { cutEverywhere(t, false) })
}

// TestC08_FarIndexes: the same enumeration of every cut point with accuracies of 1e-7 .. 2e-6 and a handful of values
// spread over the whole indexable range: bin indexes and index deltas then take 4 and 5 bytes (ordinary accuracies
// never go beyond 3), also as the last field of the stream (unit entries of a paginated producer are written as bare
// index deltas). Sparse and paginated stores only: a dense store would allocate the whole span.
func TestC08_FarIndexes(t *testing.T) {
	rapid.Check(t, func(t *rapid.T) { cutEverywhere(t, true) })
}

func cutEverywhere(t *rapid.T, far bool) {
	{
		cl := newCase("C08")
		lo, hi := 1e-3, 0.3
		kinds := []string{"dense", "sparse"}
		consumers := gen.NonCollapsing
		if far {
			lo, hi = 1e-7, 2e-6
			kinds = []string{"paginated", "paginated", "sparse"}
			consumers = []gen.StoreKind{{Name: "sparse"}, {Name: "paginated"}}
			cl.label("far-indexes")
		}
		spec, m := buildMapping(t, lo, hi)
		srcKind := rapid.SampledFrom(kinds).Draw(t, "srckind")
		dom := newDomain(m)
		n := rapid.IntRange(1, 12).Draw(t, "n")
		base := rapid.IntRange(dom.minIdx+10, dom.maxIdx-80).Draw(t, "base")
		if rapid.Bool().Draw(t, "near0") && dom.minIdx+10 < -40 && dom.maxIdx-80 > 40 {
			base = rapid.IntRange(-40, 40).Draw(t, "base0")
		}
		idx := rapid.SliceOfNDistinct(rapid.IntRange(0, 60), n, n, rapid.ID[int]).Draw(t, "idx")
		if far {
			n = rapid.IntRange(1, 5).Draw(t, "nfar")
			base = 0
			idx = rapid.SliceOfNDistinct(rapid.IntRange(dom.minIdx+10, dom.maxIdx-10), n, n, rapid.ID[int]).Draw(t, "idxfar")
		}
		ps, ns := gen.StoreKind{Name: srcKind}.New(), gen.StoreKind{Name: srcKind}.New()
		for _, i := range idx {
			var w float64
			if far {
				// unit entries only: a paginated producer keeps them in its buffer and writes them as bare index deltas
				// (a weighted entry would make a paginated store allocate a page table over the whole span)
				if rapid.Bool().Draw(t, "neg") {
					ns.Add(base + i)
				} else {
					ps.Add(base + i)
				}
				continue
			}
			switch rapid.IntRange(0, 3).Draw(t, "wclass") {
			case 0:
				w = rapid.SampledFrom([]float64{0.1, 0.3, 1.0 / 3, 2.7, 1e-3, 123.456, 1e15 + 0.5}).Draw(t, "wspecial")
			case 1:
				w = rapid.Float64Range(1e-6, 1e6).Draw(t, "w")
			case 2:
				w = math.Float64frombits(rapid.Uint64Range(0x3c00000000000000, 0x4400000000000000).Draw(t, "wbits"))
			default:
				w = float64(rapid.IntRange(1, 1000).Draw(t, "wint"))
			}
			if rapid.Bool().Draw(t, "neg") {
				ns.AddWithCount(base+i, w)
			} else {
				ps.AddWithCount(base+i, w)
			}
		}
		s := ddsketch.NewDDSketch(m, ps, ns)
		if rapid.Bool().Draw(t, "zero") {
			_ = s.AddWithCount(0, rapid.Float64Range(0.01, 100).Draw(t, "zerow"))
		}
		omit := rapid.Bool().Draw(t, "omit")
		var enc []byte
		s.Encode(&enc, omit)
		cl.logf("C08 long varfloats %s src=%s omit=%v encoding=% x", spec, srcKind, omit, enc)
		_, blocks, err := refdec.Parse(enc)
		if err != nil {
			t.Fatalf("C08: encoding does not parse: %v", err)
		}
		long := false
		for _, b := range blocks {
			for _, f := range b.Fields {
				if f.Kind == "varfloat" && f.Len >= 8 {
					long = true
				}
			}
		}
		cl.labelIf(long, "varfloat>=8-bytes")
		cl.label("long-varfloats")
		var nCuts, nInside int64
		for cut := 0; cut < len(enc); cut++ {
			boundary, blk, field, keep := refdec.ClassifyCut(blocks, cut)
			pre := enc[:cut]
			if !boundary && field != nil && field.Kind == "varfloat" && field.Len == 9 && keep == 8 {
				cl.label("cut:8-of-9-varfloat-bytes")
			}
			nCuts++
			for _, kind := range consumers {
				for _, supplied := range []bool{true, false} {
					c := consumer{kind, "plain", supplied}
					sk, _, _, err, pan := runConsumer(c, spec, m, pre, nil, false)
					if pan != nil {
						t.Fatalf("C08: decoding the encoding cut at %d/%d bytes with %+v panicked: %v\nencoding: % x", cut, len(enc), c, pan, enc)
					}
					if !boundary {
						nInside++
						if err == nil {
							t.Fatalf("C08: the encoding cut at %d/%d bytes (strictly inside a %s block, field %v) was decoded by %+v without error\nencoding: % x", cut, len(enc), blk.Kind, field, c, enc)
						}
						continue
					}
					pc, _, _ := refdec.Parse(pre)
					if !(supplied || len(pc.Mappings) > 0) {
						if err == nil {
							t.Fatalf("C08: prefix without mapping decoded without error by %+v", c)
						}
						continue
					}
					if err != nil {
						t.Fatalf("C08: the encoding cut at %d/%d bytes, exactly between blocks, was refused by %+v: %v", cut, len(enc), c, err)
					}
					// one contribution per index: decoded weights must have exactly the bits the independent parser reads
					for side, st := range storesOf(sk) {
						want := pc.Bins(side == 1)
						got := map[int64]float64{}
						st.ForEach(func(i int, w float64) bool { got[int64(i)] += w; return false })
						for i, w := range want {
							if w == 0 {
								continue
							}
							if g, ok := got[i]; !ok || !obs.FEq(g, w) {
								t.Fatalf("C08: prefix of %d bytes decoded by %+v: side %d bin %d holds %v, complete blocks say %v", cut, c, side, i, g, w)
							}
							delete(got, i)
						}
						for i, g := range got {
							if g != 0 {
								t.Fatalf("C08: prefix of %d bytes decoded by %+v: side %d holds bin %d=%v that no complete block contains", cut, c, side, i, g)
							}
						}
					}
					if !obs.FEq(sk.GetZeroCount(), pc.Zero) {
						t.Fatalf("C08: prefix of %d bytes: zero count %v, complete blocks say %v", cut, sk.GetZeroCount(), pc.Zero)
					}
				}
			}
		}
		stats.Count("C08", "cuts", nCuts)
		stats.Count("C08", "cuts_strictly_inside_a_block", nInside/int64(2*len(consumers)))
		stats.Count("C08", "decodes", nCuts*int64(2*len(consumers)))
		fiveBytes := false
		for _, b := range blocks {
			for _, f := range b.Fields {
				if (f.Kind == "varint" || f.Kind == "uvarint") && f.Len >= 5 {
					fiveBytes = true
				}
			}
		}
		cl.labelIf(fiveBytes, "integer-field>=5-bytes")
		cl.done(long || fiveBytes)
	}
}

// TestC08_ReceiverWithoutMapping: a receiver that was never given a mapping is offered, in turn, streams that must be
// refused - a mapping block whose parameters no mapping can have (base <= 1), a mapping block cut short, an undefined
// mapping flag - and then a valid stream WITHOUT mapping: "a stream without mapping when none is supplied returns an
// error", whatever was refused before; the receiver stays empty and usable, and finally accepts a stream with its mapping.
func TestC08_ReceiverWithoutMapping(t *testing.T) {
	rapid.Check(t, func(t *rapid.T) {
		cl := newCase("C08")
		cl.label("receiver-without-mapping")
		spec, m := buildMapping(t, 1e-3, 0.3)
		kind := gen.AnyKind().Draw(t, "kind")
		var r *ddsketch.DDSketch
		if rapid.Bool().Draw(t, "viadecode") {
			var err error
			if r, err = ddsketch.DecodeDDSketch([]byte{}, kind.Provider(), nil); err != nil {
				// (an empty stream without mapping is refused too: start from the constructor then)
				r = nil
			}
		}
		if r == nil {
			r = ddsketch.NewDDSketch(nil, kind.New(), kind.New())
		}
		src := ddsketch.NewDDSketch(m, kind.New(), kind.New())
		n := rapid.IntRange(1, 6).Draw(t, "n")
		for i := 0; i < n; i++ {
			_ = src.Add(gen.ClampPos(m, rapid.SampledFrom([]float64{1, 2.5, 1000, 1e-3, 77}).Draw(t, "v")))
		}
		var noMap, withMap []byte
		src.Encode(&noMap, true)
		src.Encode(&withMap, false)
		refusals := rapid.IntRange(0, 3).Draw(t, "refusals")
		for i := 0; i < refusals; i++ {
			var w refdec.Builder
			what := ""
			switch rapid.IntRange(0, 2).Draw(t, "badkind") {
			case 0:
				g := rapid.SampledFrom([]float64{1, 0.5, 0, -2, math.Copysign(0, -1), math.Nextafter(1, 0)}).Draw(t, "badgamma")
				w.Mapping(byte(rapid.SampledFrom([]int{refdec.SubMapLog, refdec.SubMapLinear, refdec.SubMapCubic}).Draw(t, "sub")), g, rapid.Float64Range(-5, 5).Draw(t, "off"))
				what = fmt.Sprintf("a mapping block with base %v", g)
				cl.label("refused:impossible-base")
			case 1:
				w.Mapping(refdec.SubMapLog, 1.02, 0)
				w.B = w.B[:rapid.IntRange(1, len(w.B)-1).Draw(t, "cutat")]
				what = "a mapping block cut short"
			default:
				w.Mapping(byte(rapid.SampledFrom([]int{5, 6, 7, 9}).Draw(t, "undef")), 1.02, 0)
				what = "an undefined mapping flag"
			}
			if what != "a mapping block cut short" && rapid.Bool().Draw(t, "binsafter") {
				w.B = append(w.B, noMap...) // (after a block cut short, more bytes would complete it)
			}
			cl.logf("refused stream: %s (% x)", what, w.B)
			func() {
				defer func() {
					if p := recover(); p != nil {
						t.Fatalf("C08 %s: decoding %s panicked: %v", spec, what, p)
					}
				}()
				if err := r.DecodeAndMergeWith(w.B); err == nil {
					t.Fatalf("C08 %s: %s was decoded without error", spec, what)
				}
			}()
		}
		func() {
			defer func() {
				if p := recover(); p != nil {
					t.Fatalf("C08 %s: after %d refused streams, a stream without mapping (none supplied) made the receiver panic: %v", spec, refusals, p)
				}
			}()
			if err := r.DecodeAndMergeWith(noMap); err == nil {
				t.Fatalf("C08 %s (%s): after %d refused streams, a stream without mapping was decoded without error although the receiver was never given one (count %v)", spec, kind, refusals, r.GetCount())
			}
			// (what a refused stream leaves behind in the receiver - its bins, here without any mapping to read them
			// with - is the partial absorption that no property speaks of: the receiver is not queried)
		}()
		fresh := ddsketch.NewDDSketch(nil, kind.New(), kind.New())
		if err := fresh.DecodeAndMergeWith(withMap); err != nil || fresh.GetCount() != float64(n) {
			t.Fatalf("C08 %s: a stream with its mapping, decoded into a new receiver without mapping: error %v, count %v (stream: %d)", spec, err, fresh.GetCount(), n)
		}
		cl.done(refusals > 0)
	})
}
