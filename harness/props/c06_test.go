package props

import (
	"bytes"
	"fmt"
	"math"
	"sort"
	"testing"

	"github.com/DataDog/sketches-go/ddsketch"
	"github.com/DataDog/sketches-go/ddsketch/mapping"
	"github.com/DataDog/sketches-go/ddsketch/store"
	"pgregory.net/rapid"
	"verifharness/gen"
	"verifharness/model"
	"verifharness/obs"
	"verifharness/refdec"
	"verifharness/stats"
)

func init() {
	stats.Rule("C06", "rapid cases: a source sketch built by a short generated history (weighted adds with dyadic weights, bursts, merges, reweights; any mapping, any of the five store kinds per side, plain or exact variant), encoded with omitIndexMapping in {true,false} after an arbitrary buffer prefix (with and without spare capacity); decoded into a target of any of the five store kinds (collapsing with its own N); 0..3 further sketches for concatenation; a non-empty receiver of any kind. Oracle: (1) decode(enc(s)) has an Equal mapping that re-encodes to the same bytes, bins == fold_target(observed bins of s), zero weight equal, whole observation identical to the source's for non-collapsing targets; (2) r.DecodeAndMergeWith(enc(s)) is observationally identical to r'.MergeWith(s) on a copy; (3) decoding a concatenation equals merging; (4) Encode leaves the prefix and the backing array before it untouched; (5) Encode does not change the source's observation. A second generator gives each index one arbitrary non-negative float64 weight (subnormal..1e300) in a dense or sparse source: each decoded weight must have exactly the bits of (w+1)-1 (absent when that is 0). Non-trivial: a source with >= 2 bins on at least one side; distinct by hash of the printed case; labels record which wire layouts occurred (read from the stream by the independent parser).")
}

var codecSourceKinds = []string{"add", "add", "add", "add", "add", "add", "add", "burst", "burst", "spread", "tworuns", "merge", "merge", "reweight", "reweight", "clear", "clear"}

// buildSource builds a sketch by a short history.
func buildSource(t *rapid.T, cl *caseLog, c skCfg, d valDom, bud *model.Budget, maxOps int, tag string) *skUT {
	u := newSkUT(c, d, bud, cl)
	g := &kopGen{dom: d, prof: drawProfile(t), bud: bud, kinds: codecSourceKinds, collapsing: true}
	n := rapid.IntRange(0, maxOps).Draw(t, "srcops")
	for i := 0; i < n; i++ {
		op := g.drawOp(t, u)
		cl.logf("%s %s", tag, op)
		if msg := u.apply(op); msg != "" {
			t.Fatalf("building %s (%s), after %s: %s", tag, c, op, msg)
		}
	}
	return u
}

// layoutsOf labels which wire layouts occur in an encoding, using the independent parser.
func layoutsOf(cl *caseLog, b []byte) {
	_, blocks, err := refdec.Parse(b)
	if err != nil {
		return
	}
	for _, blk := range blocks {
		switch blk.Kind {
		case "pos", "neg":
			cl.label(fmt.Sprintf("layout:%d", blk.Layout))
		case "zero":
			cl.label("block:zero")
		case "mapping":
			cl.label("block:mapping")
		case "count":
			cl.label("block:stats")
		}
	}
}

// foldInto: what a target of configuration tc must hold after absorbing the observed content of (sc, sk).
func foldInto(tc skCfg, sc skCfg, sk *skModel) *skModel {
	k := newSkModel(tc.m)
	k.pos = expected(sc.pos, sk.pos).Copy()
	k.neg = expected(sc.neg, sk.neg).Copy()
	k.zero = sk.zero
	k.vals = append(k.vals, sk.vals...)
	k.truth = append(k.truth, sk.truth...)
	k.amp = sk.amp // (the allowance for subnormal rounding errors amplified by scale-ups travels with the content)
	return k
}

func TestC06(t *testing.T) {
	rapid.Check(t, func(t *rapid.T) {
		cl := newCase("C06")
		sc := drawCfg(t, cfgOpt{alphaLo: 1e-3, alphaHi: 0.3, collapsing: true, exact: 2})
		d := drawDomain(t, sc.m, 1<<12)
		bud := model.NewBudget(gen.Quantum)
		src := buildSource(t, cl, sc, d, bud, 14, "src")
		cl.logf("C06 source %s", sc)
		cl.label("source:" + sc.pos.Name)
		cl.labelIf(sc.exact, "variant:exact")
		omit := rapid.Bool().Draw(t, "omit")
		cl.labelIf(omit, "omit-mapping")
		prefix := rapid.SliceOfN(rapid.Byte(), 0, 40).Draw(t, "prefix")
		cl.labelIf(len(prefix) > 0, "prefix")
		spare := rapid.IntRange(0, 2).Draw(t, "spare")
		buf := make([]byte, len(prefix), len(prefix)+[]int{0, 7, 4096}[spare])
		copy(buf, prefix)
		backing := buf[:cap(buf)]
		for i := len(prefix); i < len(backing); i++ {
			backing[i] = 0xEE
		}
		before := src.fullObs(src.s, src.k, sc)
		src.s.Encode(&buf, omit)
		if dd := obs.DiffSketch(src.fullObs(src.s, src.k, sc), before, src.diffOpts()); dd != "" {
			t.Fatalf("C06 %s: Encode changed the sketch: %s", sc, dd)
		}
		if msg := src.invariant(); msg != "" {
			t.Fatalf("C06 %s: after Encode: %s", sc, msg)
		}
		if len(buf) < len(prefix) || !bytes.Equal(buf[:len(prefix)], prefix) {
			t.Fatalf("C06 %s: Encode did not append: prefix % x became % x", sc, prefix, buf[:min(len(buf), len(prefix))])
		}
		if !bytes.Equal(backing[:len(prefix)], prefix) {
			t.Fatalf("C06 %s: Encode wrote into the backing array before the end of the caller's slice", sc)
		}
		encd := buf[len(prefix):]
		layoutsOf(cl, encd)
		cl.logf("encoding omit=%v prefix=%d spare=%d len=%d", omit, len(prefix), spare, len(encd))

		// (1) decode into a target of any kind
		tc := skCfg{spec: sc.spec, m: sc.m, exact: sc.exact, pos: gen.AnyKind().Draw(t, "tpos"), neg: gen.AnyKind().Draw(t, "tneg")}
		if tc.exact {
			tc.neg = tc.pos
		}
		cl.label("target:" + tc.pos.Name)
		cl.logf("target %s", tc)
		dec, err := decodeSketch(tc, encd, omit)
		if err != nil {
			t.Fatalf("C06 %s -> %s: decoding the encoding (omit=%v) failed: %v", sc, tc, omit, err)
		}
		if !dec.Mapping().Equals(sc.m) || !sc.m.Equals(dec.Mapping()) {
			t.Fatalf("C06 %s: decoded mapping is not Equal to the source's", sc)
		}
		var m1, m2 []byte
		sc.m.Encode(&m1)
		dec.Mapping().Encode(&m2)
		if !bytes.Equal(m1, m2) {
			t.Fatalf("C06 %s: decoded mapping re-encodes to % x, source's % x", sc, m2, m1)
		}
		tk := foldInto(tc, sc, src.k)
		tu := &skUT{cfg: tc, s: dec, k: tk, bud: bud, cl: cl, inex: src.inex + 1}
		if msg := tu.invariant(); msg != "" {
			t.Fatalf("C06 %s -> %s: decoded sketch differs from fold_target(source content): %s", sc, tc, msg)
		}
		if !tc.anyCollapsing() && tc.pos.Name == sc.pos.Name && tc.neg.Name == sc.neg.Name {
			if dd := obs.DiffSketch(tu.fullObs(dec, tk, tc), before, obs.DiffOpts{IgnoreSum: true}); dd != "" {
				t.Fatalf("C06 %s: decoded sketch answers differently from its source: %s", sc, dd)
			}
		} else if !tc.anyCollapsing() && !sc.anyCollapsing() {
			// same answers to every query (different store kinds: compare query-level observation only)
			a, b := tu.fullObs(dec, tk, tc), before
			a.Pos.Keys, b.Pos.Keys, a.Neg.Keys, b.Neg.Keys = nil, nil, nil, nil
			if dd := obs.DiffSketch(a, b, obs.DiffOpts{IgnoreSum: true}); dd != "" {
				t.Fatalf("C06 %s -> %s: decoded sketch answers differently from its source: %s", sc, tc, dd)
			}
		}

		// (1b) second generation: what was decoded is encoded again and decoded again (stores built by a decoder can be in
		// states that additions never produce, e.g. allocated but empty regions)
		var b2 []byte
		dec.Encode(&b2, omit)
		dec2, err := decodeSketch(tc, b2, omit)
		if err != nil {
			t.Fatalf("C06 %s -> %s: the decoded sketch's own encoding cannot be decoded (second generation): %v", sc, tc, err)
		}
		tu2 := &skUT{cfg: tc, s: dec2, k: tk, bud: bud, cl: cl, inex: src.inex + 2}
		if msg := tu2.invariant(); msg != "" {
			t.Fatalf("C06 %s -> %s -> %s: second-generation decode differs from the content: %s", sc, tc, tc, msg)
		}
		cl.label("second-generation")

		// (2) decoding into a non-empty sketch == merging
		rc := skCfg{spec: sc.spec, m: sc.m, exact: sc.exact, pos: gen.AnyKind().Draw(t, "rpos"), neg: gen.AnyKind().Draw(t, "rneg")}
		if rc.exact {
			rc.neg = rc.pos
		}
		r := buildSource(t, cl, rc, d, bud, 8, "receiver")
		cl.logf("receiver %s", rc)
		cl.labelIf(r.k.total() > 0, "non-empty-receiver")
		if bud.Fits(r.k.total() + src.k.total()) {
			r2 := r.s.Copy()
			if err := r.s.DecodeAndMergeWith(encd); err != nil {
				t.Fatalf("C06 %s: DecodeAndMergeWith into %s failed: %v", sc, rc, err)
			}
			if err := r2.MergeWith(src.s); err != nil {
				t.Fatalf("C06 %s: MergeWith into %s failed: %v", sc, rc, err)
			}
			r.k.merge(src.k, sc)
			r.inex++
			if msg := r.invariant(); msg != "" {
				t.Fatalf("C06 %s into %s: after DecodeAndMergeWith: %s", sc, rc, msg)
			}
			if dd := obs.DiffSketch(r.fullObs(r.s, r.k, rc), r.fullObs(r2, r.k, rc), obs.DiffOpts{IgnoreSum: true}); dd != "" {
				t.Fatalf("C06 %s into %s: DecodeAndMergeWith(Encode(s)) differs from MergeWith(s): %s", sc, rc, dd)
			}
		}

		// (3) a concatenation of encodings decodes to the merge
		extra := rapid.IntRange(0, 3).Draw(t, "concat")
		cat := append([]byte(nil), encd...)
		sumK := foldInto(tc, sc, src.k)
		total := src.k.total()
		for i := 0; i < extra; i++ {
			ec := skCfg{spec: sc.spec, m: sc.m, exact: sc.exact, pos: gen.AnyKind().Draw(t, "epos"), neg: gen.AnyKind().Draw(t, "eneg")}
			if ec.exact {
				ec.neg = ec.pos
			}
			e := buildSource(t, cl, ec, d, bud, 8, fmt.Sprintf("extra%d", i))
			if !bud.Fits(total + e.k.total()) {
				break
			}
			total += e.k.total()
			e.s.Encode(&cat, omit || rapid.Bool().Draw(t, "omitextra"))
			sumK.merge(e.k, ec)
			cl.label("concatenation")
		}
		if extra > 0 {
			cdec, err := decodeSketch(tc, cat, omit)
			if err != nil {
				t.Fatalf("C06: decoding a concatenation of %d encodings failed: %v", extra+1, err)
			}
			cu := &skUT{cfg: tc, s: cdec, k: sumK, bud: bud, cl: cl, inex: 3 * (extra + 2)}
			if msg := cu.invariant(); msg != "" {
				t.Fatalf("C06 -> %s: decoding a concatenation of %d encodings differs from merging them: %s", tc, extra+1, msg)
			}
		}
		maxBins := len(src.k.expectPos(sc))
		if n := len(src.k.expectNeg(sc)); n > maxBins {
			maxBins = n
		}
		cl.labelIf(len(src.k.pos) > 0 && len(src.k.neg) > 0, "both-sides")
		checkVanishedEncoding(t, cl, "C06", sc, src.s, omit)
		cl.done(maxBins >= 2)
	})
}

// Arbitrary weights: one weight per index, observed without being summed.
func TestC06_ArbitraryWeights(t *testing.T) {
	rapid.Check(t, func(t *rapid.T) {
		cl := newCase("C06")
		spec, m := buildMapping(t, 1e-3, 0.3)
		srcKind := rapid.SampledFrom([]string{"dense", "sparse"}).Draw(t, "srckind")
		tgtKind := gen.NonCollapsingKind().Draw(t, "tgtkind")
		n := rapid.IntRange(1, 40).Draw(t, "n")
		base := rapid.IntRange(-2000, 2000).Draw(t, "base")
		idx := rapid.SliceOfNDistinct(rapid.IntRange(0, 300), n, n, rapid.ID[int]).Draw(t, "idx")
		ws := map[int]float64{}
		mk := func() store.Store { return gen.StoreKind{Name: srcKind}.New() }
		ps, ns := mk(), mk()
		cl.logf("C06 arbitrary weights %s src=%s tgt=%s", spec, srcKind, tgtKind)
		for _, i := range idx {
			var w float64
			switch rapid.IntRange(0, 5).Draw(t, "wclass") {
			case 0:
				w = math.Float64frombits(rapid.Uint64Range(1, 0x7fe0000000000000).Draw(t, "wbits"))
				if w > 1e300 {
					w = 1e300
				}
			case 1:
				w = rapid.Float64Range(0, 1).Draw(t, "wfrac")
			case 2:
				w = math.Ldexp(rapid.Float64Range(1, 2).Draw(t, "wm"), rapid.IntRange(-1070, 990).Draw(t, "we"))
			case 3:
				w = rapid.SampledFrom([]float64{5e-324, 1e-17, 1.1e-16, 2.3e-16, 0.1, 0.3, 1.0 / 3, 1e15 + 0.5, 9007199254740993, 1e300}).Draw(t, "wspecial")
			default:
				w = rapid.Float64Range(0, 1e6).Draw(t, "wmid")
			}
			if w == 0 {
				w = 1
			}
			ws[base+i] = w
			ps.AddWithCount(base+i, w)
			cl.logf("bin %d weight %x", base+i, math.Float64bits(w))
		}
		s := ddsketch.NewDDSketch(m, ps, ns)
		var b []byte
		s.Encode(&b, false)
		layoutsOf(cl, b)
		dec, err := ddsketch.DecodeDDSketch(b, tgtKind.Provider(), nil)
		if err != nil {
			t.Fatalf("C06 arbitrary weights: decode failed: %v", err)
		}
		got := map[int]float64{}
		dec.GetPositiveValueStore().ForEach(func(i int, c float64) bool { got[i] += c; return false })
		keys := make([]int, 0, len(ws))
		for i := range ws {
			keys = append(keys, i)
		}
		sort.Ints(keys)
		lossy := false
		for _, i := range keys {
			w := ws[i]
			want := refdec.VarfloatTransform(w)
			if want != w {
				lossy = true
			}
			g, ok := got[i]
			if want == 0 {
				if ok && g != 0 {
					t.Fatalf("C06 arbitrary weights: bin %d weight %v must vanish ((w+1)-1 == 0), decoded %v", i, w, g)
				}
				cl.label("weight-vanishes")
				continue
			}
			if !ok || !obs.FEq(g, want) {
				t.Fatalf("C06 arbitrary weights %s->%s: bin %d weight %v (%x): decoded %v (%x), (w+1)-1 = %v (%x)", srcKind, tgtKind, i, w, math.Float64bits(w), g, math.Float64bits(g), want, math.Float64bits(want))
			}
			delete(got, i)
		}
		for i, g := range got {
			if _, known := ws[i]; !known && g != 0 {
				t.Fatalf("C06 arbitrary weights: decoded bin %d weight %v that was never encoded", i, g)
			}
		}
		cl.label("arbitrary-weights")
		cl.labelIf(lossy, "weight-changed-by-transform")
		cl.label("source:" + srcKind)
		cl.label("target:" + tgtKind.Name)
		cl.done(len(ws) >= 2)
	})
}

var _ mapping.IndexMapping

// TestC06_FarIndexes: round-trip, decode-into-non-empty and concatenation for sketches whose bins lie more than 2^31
// indexes apart (accuracy <= 3e-7, values at both ends of the range), into every target that can hold them.
func TestC06_FarIndexes(t *testing.T) {
	rapid.Check(t, func(t *rapid.T) {
		cl := newCase("C06")
		src := farSource(t, cl, "C06", false, nil)
		bud := model.NewBudget(gen.Quantum)
		cl.label("far-indexes")
		cl.labelIf(src.span > math.MaxInt32, "index-delta-beyond-int32")
		cl.label("source:" + src.prodKind)
		var b []byte
		omit := rapid.Bool().Draw(t, "omit")
		src.s.Encode(&b, omit)
		var supplied mapping.IndexMapping
		if omit || rapid.Bool().Draw(t, "supply") {
			supplied = src.m
		}
		targets := []gen.StoreKind{{Name: "sparse"}, {Name: "collow", N: gen.BinLimit().Draw(t, "Nlow")}, {Name: "colhigh", N: gen.BinLimit().Draw(t, "Nhigh")}}
		if src.unitOnly {
			targets = append(targets, gen.StoreKind{Name: "paginated"})
		}
		for _, tk := range targets {
			tc := skCfg{spec: src.spec, m: src.m, pos: tk, neg: tk}
			dec, err := ddsketch.DecodeDDSketch(b, tc.provider(), supplied)
			if err != nil {
				t.Fatalf("C06 far: decoding the encoding of a valid sketch (producer %s, alpha %v, index span %d) into %s failed: %v", src.prodKind, src.alpha, src.span, tk, err)
			}
			if msg := checkAgainstModel(obs.SK{Plain: dec}, tc, src.k, bud); msg != "" {
				t.Fatalf("C06 far -> %s: %s", tk, msg)
			}
			if !dec.IndexMapping.Equals(src.m) {
				t.Fatalf("C06 far -> %s: decoded mapping differs", tk)
			}
			cl.label("target:" + tk.Name)
		}
		// decoding into a non-empty receiver == merging; a concatenation == the merge of its parts
		other := farSource(t, cl, "C06", src.unitOnly, &src)
		for _, tk := range targets {
			if tk.Collapsing() {
				continue // folding is not associative across a merge of two wide contents: covered by the dyadic C06 cases
			}
			tc := skCfg{spec: src.spec, m: src.m, pos: tk, neg: tk}
			recv := tc.new()
			var ob []byte
			other.s.Encode(&ob, false)
			if err := recv.DecodeAndMergeWith(ob); err != nil {
				t.Fatalf("C06 far: filling the %s receiver: %v", tk, err)
			}
			if err := recv.DecodeAndMergeWith(b); err != nil {
				t.Fatalf("C06 far: DecodeAndMergeWith into a non-empty %s receiver failed: %v", tk, err)
			}
			merged := newSkModel(src.m)
			merged.merge(other.k, other.sc)
			merged.merge(src.k, src.sc)
			if msg := checkAgainstModel(recv, tc, merged, bud); msg != "" {
				t.Fatalf("C06 far: decode into a non-empty %s receiver differs from the merge: %s", tk, msg)
			}
			cat := append(append([]byte(nil), ob...), b...)
			dec, err := ddsketch.DecodeDDSketch(cat, tc.provider(), src.m)
			if err != nil {
				t.Fatalf("C06 far: decoding a concatenation into %s failed: %v", tk, err)
			}
			if msg := checkAgainstModel(obs.SK{Plain: dec}, tc, merged, bud); msg != "" {
				t.Fatalf("C06 far: concatenation decoded into %s differs from the merge: %s", tk, msg)
			}
		}
		cl.label("non-empty-receiver")
		cl.label("concatenation")
		cl.done(src.span > math.MaxInt32)
	})
}

// TestC06_WideContiguous: dense-family producers holding a run of 65 530 .. 140 000 consecutive non-empty bins (the
// contiguous layout then announces a bin count around and above 2^16 and 2^17), decoded into every store kind.
func TestC06_WideContiguous(t *testing.T) {
	rapid.Check(t, func(t *rapid.T) {
		cl := newCase("C06")
		n := rapid.SampledFrom([]int{65530, 65535, 65536, 65537, 70000, 131071, 131072, 131073, 140000}).Draw(t, "run")
		base := rapid.SampledFrom([]int{0, -n / 2, 1000, -200000, 1 << 20}).Draw(t, "base")
		prod := rapid.SampledFrom([]gen.StoreKind{{Name: "dense"}, {Name: "collow", N: 1 << 20}, {Name: "colhigh", N: 1 << 20}}).Draw(t, "producer")
		src := prod.New()
		holes := rapid.IntRange(0, 3).Draw(t, "holes")
		total := 0.0
		for i := 0; i < n; i++ {
			if holes > 0 && i%1000 == 7*holes {
				continue // a few empty bins inside the run
			}
			w := 1.0
			if i%97 == 0 {
				w = 2.5
			}
			src.AddWithCount(base+i, w)
			total += w
		}
		enc := encodeStore(src)
		cl.logf("C06 wide contiguous run=%d base=%d producer=%s encoding %d bytes", n, base, prod, len(enc))
		cl.label("wide-contiguous-run")
		cl.labelIf(n > 65535, "contiguous-block>65535-bins")
		for _, tk := range []gen.StoreKind{{Name: "dense"}, {Name: "sparse"}, {Name: "paginated"}, {Name: "collow", N: 1 << 20}, {Name: "colhigh", N: 1 << 20}} {
			tgt := tk.New()
			tgt.AddWithCount(base+5, 4) // a non-empty receiver: decoding merges
			if err := decodeInto(tgt, enc); err != nil {
				t.Fatalf("C06 wide contiguous (%d bins from %s): decoding into %s failed: %v", n, prod, tk, err)
			}
			if got := tgt.TotalCount(); got != total+4 {
				t.Fatalf("C06 wide contiguous -> %s: total %v, expected %v", tk, got, total+4)
			}
			bad := ""
			src.ForEach(func(i int, c float64) bool {
				return false
			})
			seen := 0
			tgt.ForEach(func(i int, c float64) bool {
				want := 1.0
				if (i-base)%97 == 0 {
					want = 2.5
				}
				if i == base+5 {
					want += 4
				}
				if c != want {
					bad = fmt.Sprintf("bin %d holds %v, expected %v", i, c, want)
				}
				seen++
				return bad != ""
			})
			if bad != "" {
				t.Fatalf("C06 wide contiguous -> %s: %s", tk, bad)
			}
			mn, _ := tgt.MinIndex()
			mx, _ := tgt.MaxIndex()
			smn, _ := src.MinIndex()
			smx, _ := src.MaxIndex()
			if mn != smn || mx != smx {
				t.Fatalf("C06 wide contiguous -> %s: index range [%d,%d], source [%d,%d]", tk, mn, mx, smn, smx)
			}
		}
		cl.done(true)
	})
}
