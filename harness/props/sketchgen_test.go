package props

import (
	"fmt"
	"math"
	"math/big"
	"sort"

	"github.com/DataDog/sketches-go/ddsketch"
	"github.com/DataDog/sketches-go/ddsketch/mapping"
	"github.com/DataDog/sketches-go/ddsketch/store"
	"pgregory.net/rapid"
	"verifharness/gen"
	"verifharness/model"
	"verifharness/obs"
)

// ---------------------------------------------------------------- sketch configuration

type skCfg struct {
	spec     gen.MapSpec
	m        mapping.IndexMapping
	pos, neg gen.StoreKind
	exact    bool
}

func (c skCfg) String() string {
	v := "plain"
	if c.exact {
		v = "exact"
	}
	return fmt.Sprintf("%s %s pos=%s neg=%s", v, c.spec, c.pos, c.neg)
}

func (c skCfg) new() obs.SK { return obs.NewSK(c.exact, c.m, c.pos.New, c.neg.New) }

// provider returns a store provider that yields the positive kind first, then the negative kind (the order in which the decoders and constructors call it).
func (c skCfg) provider() store.Provider {
	n := 0
	return func() store.Store {
		n++
		if n%2 == 1 {
			return c.pos.New()
		}
		return c.neg.New()
	}
}

func (c skCfg) anySparse() bool     { return c.pos.Name == "sparse" || c.neg.Name == "sparse" }
func (c skCfg) bothSparse() bool    { return c.pos.Name == "sparse" && c.neg.Name == "sparse" }
func (c skCfg) anyCollapsing() bool { return c.pos.Collapsing() || c.neg.Collapsing() }

type cfgOpt struct {
	alphaLo, alphaHi float64
	collapsing       bool // allow collapsing stores
	exact            int  // 0 plain, 1 exact, 2 either
}

func buildMapping(t *rapid.T, lo, hi float64) (gen.MapSpec, mapping.IndexMapping) {
	spec := gen.SketchMapping(lo, hi).Draw(t, "mapspec")
	m, err := spec.Build()
	if err != nil {
		t.Fatalf("harness: mapping %s refused: %v", spec, err)
	}
	return spec, m
}

func drawCfg(t *rapid.T, o cfgOpt) skCfg {
	spec, m := buildMapping(t, o.alphaLo, o.alphaHi)
	c := skCfg{spec: spec, m: m}
	kindGen := gen.NonCollapsingKind()
	if o.collapsing {
		kindGen = gen.AnyKind()
	}
	c.pos = kindGen.Draw(t, "poskind")
	c.neg = kindGen.Draw(t, "negkind")
	switch o.exact {
	case 1:
		c.exact = true
	case 2:
		c.exact = rapid.Bool().Draw(t, "exact")
	}
	if c.exact {
		c.neg = c.pos // the exact variant is built from one provider
	}
	return c
}

// ---------------------------------------------------------------- value domain

// valDom generates values from the mapping under test inside an index window
// [lo, hi] (memory: dense and paginated stores cannot span the whole index range).
type valDom struct {
	m              mapping.IndexMapping
	lo, hi         int
	minIdx, maxIdx int
	minV, maxV     float64 // smallest / largest value that is tracked in a bin
	hint           []int   // bins worth probing on purpose (gen.HintIndexes), when they lie in the window
	wideLo, wideHi int     // if set (wideLo < wideHi): the bins that operations reaching beyond the window (spreads) may touch
}

func newDomain(m mapping.IndexMapping) valDom {
	d := valDom{m: m}
	d.minV = gen.NextUp(m.MinIndexableValue(), 1)
	d.maxV = m.MaxIndexableValue()
	d.minIdx = m.Index(d.minV)
	d.maxIdx = m.Index(d.maxV)
	d.lo, d.hi = d.minIdx, d.maxIdx
	return d
}

// drawDomain picks the index window. width <= 0 means unconstrained (sparse stores on both sides).
func drawDomain(t *rapid.T, m mapping.IndexMapping, maxWidth int) valDom {
	d := newDomain(m)
	full := d.maxIdx - d.minIdx + 1
	if maxWidth <= 0 && rapid.Bool().Draw(t, "fullrange") {
		return d
	}
	if maxWidth <= 0 || maxWidth > 1<<14 {
		if maxWidth <= 0 {
			maxWidth = 1 << 14
		}
	}
	w := rapid.SampledFrom([]int{1, 2, 3, 10, 40, 100, 1000, 1 << 14}).Draw(t, "window")
	if w > maxWidth {
		w = maxWidth
	}
	if w > full {
		w = full
	}
	var c int
	hints := gen.HintIndexes(m)
	centreClass := rapid.IntRange(0, 6).Draw(t, "centre")
	if len(hints) > 0 && hints[len(hints)-1] > d.minIdx && hints[len(hints)-1] < d.maxIdx && rapid.Bool().Draw(t, "centreonhint") {
		centreClass = 7
	}
	switch centreClass {
	case 7:
		c = hints[len(hints)-1]
	case 0, 1:
		c = m.Index(1)
	case 2:
		c = d.minIdx + w/2
	case 3:
		c = d.maxIdx - w/2
	case 4:
		c = m.Index(gen.ClampPos(m, math.Ldexp(1, rapid.IntRange(-1000, 1000).Draw(t, "centrepow"))))
	default:
		c = rapid.IntRange(d.minIdx, d.maxIdx).Draw(t, "centreidx")
	}
	d.lo = c - w/2
	d.hi = d.lo + w - 1
	if d.lo < d.minIdx {
		d.lo, d.hi = d.minIdx, d.minIdx+w-1
	}
	if d.hi > d.maxIdx {
		d.hi, d.lo = d.maxIdx, d.maxIdx-w+1
	}
	if d.lo < d.minIdx {
		d.lo = d.minIdx
	}
	for _, h := range hints {
		if h >= d.lo && h <= d.hi {
			d.hint = append(d.hint, h)
		}
	}
	return d
}

func (d valDom) clamp(v float64) float64 {
	if !(v >= d.minV) {
		return d.minV
	}
	if v > d.maxV {
		return d.maxV
	}
	return v
}

func (d valDom) lowerBound(i int) float64 {
	if i <= d.minIdx {
		return d.minV
	}
	return d.clamp(d.m.LowerBound(i))
}

func (d valDom) upperBound(i int) float64 {
	if i >= d.maxIdx {
		return d.maxV
	}
	return d.clamp(d.m.LowerBound(i + 1))
}

// posValue draws a positive tracked value whose bin is in the window (edge values can fall one bin outside).
// edge reports whether the value was placed within 4 ulps of a bin edge or a range end.
func (d valDom) posValue(t *rapid.T) (v float64, edge bool) {
	var i int
	idxClass := rapid.IntRange(0, 4).Draw(t, "idxclass")
	if len(d.hint) > 0 && rapid.IntRange(0, 2).Draw(t, "onhint") == 0 {
		idxClass = 5
	}
	switch idxClass {
	case 5:
		i = d.hint[rapid.IntRange(0, len(d.hint)-1).Draw(t, "hintidx")]
	case 0:
		i = d.lo
	case 1:
		i = d.hi
	default:
		i = rapid.IntRange(d.lo, d.hi).Draw(t, "idx")
	}
	switch rapid.IntRange(0, 7).Draw(t, "vclass") {
	case 0, 1: // bin edge +- k ulps
		k := rapid.IntRange(-4, 4).Draw(t, "ulps")
		v, edge = gen.NextUp(d.lowerBound(i), k), true
		if i == d.lo && k < 0 && d.lo > d.minIdx {
			// stay inside the window on its lower edge unless the window is the start of the range
			v = d.lowerBound(i)
		}
	case 2:
		v = d.m.Value(i)
	case 3: // range ends inward
		if i == d.minIdx {
			v, edge = gen.NextUp(d.minV, rapid.IntRange(0, 4).Draw(t, "ulps")), true
		} else if i == d.maxIdx {
			v, edge = gen.NextUp(d.maxV, -rapid.IntRange(0, 4).Draw(t, "ulps")), true
		} else {
			v = d.m.Value(i)
		}
	case 4: // power of two inside the bin, if any
		lb, ub := d.lowerBound(i), d.upperBound(i)
		p := math.Ldexp(1, int(math.Ceil(math.Log2(lb))))
		if p >= lb && p < ub {
			v, edge = gen.NextUp(p, rapid.IntRange(-2, 2).Draw(t, "ulps")), true
		} else {
			v = lb + (ub-lb)*0.5
		}
	default:
		lb, ub := d.lowerBound(i), d.upperBound(i)
		u := rapid.Float64Range(0, 1).Draw(t, "u")
		v = lb + (ub-lb)*u
		if math.IsInf(v, 0) || math.IsNaN(v) {
			v = lb
		}
	}
	return d.clamp(v), edge
}

var subMinimum = func(d valDom) []float64 {
	mn := d.m.MinIndexableValue()
	return []float64{0, math.Copysign(0, -1), math.SmallestNonzeroFloat64, -math.SmallestNonzeroFloat64, mn / 2, -mn / 2, gen.NextUp(mn, -1), -gen.NextUp(mn, -1), 1e-320, -2.2250738585072014e-308}
}

// signProfile: which sides a case uses.
type signProfile struct{ pos, neg, zero, submin bool }

func drawProfile(t *rapid.T) signProfile {
	switch rapid.IntRange(0, 9).Draw(t, "profile") {
	case 0, 1:
		return signProfile{pos: true}
	case 2:
		return signProfile{neg: true}
	case 3:
		return signProfile{pos: true, zero: true}
	case 4:
		return signProfile{neg: true, zero: true}
	case 5:
		return signProfile{pos: true, neg: true}
	default:
		return signProfile{pos: true, neg: true, zero: true, submin: true}
	}
}

// value draws a signed value according to the profile. class is one of pos, neg, zero, submin.
func (d valDom) value(t *rapid.T, p signProfile) (v float64, class string, edge bool) {
	var opts []string
	if p.pos {
		opts = append(opts, "pos", "pos", "pos")
	}
	if p.neg {
		opts = append(opts, "neg", "neg", "neg")
	}
	if p.zero {
		opts = append(opts, "zero")
	}
	if p.submin {
		opts = append(opts, "submin")
	}
	if len(opts) == 0 {
		opts = []string{"pos"}
	}
	class = rapid.SampledFrom(opts).Draw(t, "sign")
	switch class {
	case "pos":
		v, edge = d.posValue(t)
	case "neg":
		v, edge = d.posValue(t)
		v = -v
	case "zero":
		v = 0
	default:
		v = rapid.SampledFrom(subMinimum(d)).Draw(t, "submin")
	}
	return
}

// windowFor returns the maximal index window for the store kinds of a configuration (<= 0: unconstrained).
func windowFor(c skCfg) int {
	if c.bothSparse() {
		return 0
	}
	w := 1 << 14
	for _, k := range []gen.StoreKind{c.pos, c.neg} {
		if k.Collapsing() {
			if x := 10*k.N + 10; x < w {
				w = x
			}
		}
	}
	return w
}

// ---------------------------------------------------------------- sketch model

// skModel is the exact model of a sketch: per-side index->weight maps (unfolded), zero weight and the absorbed (value, weight) list.
type skModel struct {
	m        mapping.IndexMapping
	pos, neg model.Map
	zero     float64
	vals     []obs.VW     // everything absorbed with weight > 0 (values as the sketch saw them; after a unit change: fl(v*scale), as min/max are rescaled)
	truth    []*big.Float // the exact value of each entry (exact product of the original value and every unit-change factor): reference for the sum
	amp      float64      // product of the scale-ups applied by unit changes (>= 1): absolute errors committed before a scale-up are amplified by it
}

func newSkModel(m mapping.IndexMapping) *skModel {
	return &skModel{m: m, pos: model.Map{}, neg: model.Map{}}
}

func (k *skModel) add(v, w float64) {
	if w == 0 {
		return
	}
	switch {
	case v > k.m.MinIndexableValue():
		k.pos.Add(k.m.Index(v), w)
	case v < -k.m.MinIndexableValue():
		k.neg.Add(k.m.Index(-v), w)
	default:
		k.zero += w
	}
	k.vals = append(k.vals, obs.VW{V: v, W: w})
	k.truth = append(k.truth, new(big.Float).SetPrec(600).SetFloat64(v))
}

// rescale applies a unit change to the value list (the per-side maps are not tracked through it).
func (k *skModel) rescale(scale float64) {
	sc := new(big.Float).SetPrec(600).SetFloat64(scale)
	if k.amp < 1 {
		k.amp = 1
	}
	if scale > 1 {
		k.amp *= scale
	}
	for i := range k.vals {
		k.vals[i].V *= scale
		k.truth[i] = new(big.Float).SetPrec(600).Mul(k.truth[i], sc)
	}
}

func (k *skModel) total() float64 { return k.zero + k.pos.Total() + k.neg.Total() }

func (k *skModel) copy() *skModel {
	return &skModel{m: k.m, pos: k.pos.Copy(), neg: k.neg.Copy(), zero: k.zero, vals: append([]obs.VW(nil), k.vals...), truth: append([]*big.Float(nil), k.truth...), amp: k.amp}
}

func (k *skModel) clear() {
	k.pos.Clear()
	k.neg.Clear()
	k.zero = 0
	k.vals = nil
	k.truth = nil
	k.amp = 1
}

func (k *skModel) scale(f float64) {
	if k.amp < 1 {
		k.amp = 1
	}
	if f > 1 {
		k.amp *= f // absolute (subnormal) rounding errors of the running sum are multiplied too
	}
	k.pos.Scale(f)
	k.neg.Scale(f)
	k.zero *= f
	for i := range k.vals {
		k.vals[i].W *= f
	}
}

// merge absorbs another sketch's content as observed through cfg o (folded when its stores collapse).
func (k *skModel) merge(o *skModel, oc skCfg) {
	k.pos.Merge(expected(oc.pos, o.pos))
	k.neg.Merge(expected(oc.neg, o.neg))
	k.zero += o.zero
	k.vals = append(k.vals, o.vals...)
	k.truth = append(k.truth, o.truth...)
	if o.amp > k.amp {
		k.amp = o.amp
	}
}

// refold replaces the unfolded content by the folded one (after a round-trip through an encoding or a fresh store).
func (k *skModel) refold(c skCfg) {
	k.pos = expected(c.pos, k.pos).Copy()
	k.neg = expected(c.neg, k.neg).Copy()
}

// exact statistics of the absorbed values.
func (k *skModel) stats() (count, min, max, sum, sumAbs float64) {
	min, max = math.Inf(1), math.Inf(-1)
	// exact sum of truth_i * w_i in arbitrary precision (exponents span at most ~2100 bits)
	acc := new(big.Float).SetPrec(4400)
	accAbs := new(big.Float).SetPrec(4400)
	for i, x := range k.vals {
		count += x.W
		if x.V < min {
			min = x.V
		}
		if x.V > max {
			max = x.V
		}
		term := new(big.Float).SetPrec(4400).Mul(k.truth[i], new(big.Float).SetFloat64(x.W))
		acc.Add(acc, term)
		accAbs.Add(accAbs, term.Abs(term))
	}
	sum, _ = acc.Float64()
	sumAbs, _ = accAbs.Float64()
	return
}

// exactSum returns the correctly rounded sum of terms (Shewchuk / msum with exact partials).
func exactSum(xs []float64) float64 {
	var partials []float64
	for _, x := range xs {
		i := 0
		for _, y := range partials {
			if math.Abs(x) < math.Abs(y) {
				x, y = y, x
			}
			hi := x + y
			lo := y - (hi - x)
			if lo != 0 {
				partials[i] = lo
				i++
			}
			x = hi
		}
		partials = append(partials[:i], x)
	}
	s := 0.0
	for i := len(partials) - 1; i >= 0; i-- {
		s += partials[i]
	}
	return s
}

// expectBins returns the expected observation of both stores.
func (k *skModel) expectPos(c skCfg) model.Map { return expected(c.pos, k.pos) }
func (k *skModel) expectNeg(c skCfg) model.Map { return expected(c.neg, k.neg) }

// checkAgainstModel compares every deterministic observable of the sketch with the model (no quantiles: those are judged by accuracy oracles or twins).
func checkAgainstModel(s obs.SK, c skCfg, k *skModel, bud *model.Budget) string {
	ep, en := k.expectPos(c), k.expectNeg(c)
	rp, rn := ep.ProbeRanks(bud.HalfQuantum(), 6), en.ProbeRanks(bud.HalfQuantum(), 6)
	if d := obs.DiffStore(obs.Store(s.Pos(), rp), obs.ExpectStore(ep, rp)); d != "" {
		return "positive store: " + d
	}
	if d := obs.DiffStore(obs.Store(s.Neg(), rn), obs.ExpectStore(en, rn)); d != "" {
		return "negative store: " + d
	}
	if !obs.FEq(s.GetZeroCount(), k.zero) {
		return fmt.Sprintf("GetZeroCount: got %v want %v", s.GetZeroCount(), k.zero)
	}
	total := k.total()
	if !obs.FEq(s.GetCount(), total) {
		return fmt.Sprintf("GetCount: got %v want %v", s.GetCount(), total)
	}
	if s.IsEmpty() != (total == 0) {
		return fmt.Sprintf("IsEmpty: got %v with total weight %v", s.IsEmpty(), total)
	}
	// extremes
	gmin, emin := s.GetMinValue()
	gmax, emax := s.GetMaxValue()
	if total == 0 {
		if emin == nil || emax == nil {
			return fmt.Sprintf("GetMinValue/GetMaxValue on an empty sketch returned no error (%v,%v)", gmin, gmax)
		}
	} else {
		if emin != nil || emax != nil {
			return fmt.Sprintf("GetMinValue/GetMaxValue on a non-empty sketch returned an error (%v,%v)", emin, emax)
		}
		var wmin, wmax float64
		if c.exact {
			_, wmin, wmax, _, _ = k.stats()
		} else {
			wmin, wmax = k.binMin(c), k.binMax(c)
		}
		// numeric equality: the sign of a zero extreme is not part of any property (-5e-324 * 0.5 underflows to -0)
		if !(gmin == wmin) && !obs.FEq(gmin, wmin) {
			return fmt.Sprintf("GetMinValue: got %v want %v", gmin, wmin)
		}
		if !(gmax == wmax) && !obs.FEq(gmax, wmax) {
			return fmt.Sprintf("GetMaxValue: got %v want %v", gmax, wmax)
		}
	}
	// sketch ForEach
	want := k.entries(c)
	var got []obs.VW
	bad := ""
	s.ForEach(func(v, w float64) bool {
		if !(w > 0) {
			bad = fmt.Sprintf("sketch ForEach reported weight %v for value %v", w, v)
		}
		got = append(got, obs.VW{V: v, W: w})
		return false
	})
	if bad != "" {
		return bad
	}
	sortVW(got)
	if len(got) != len(want) {
		return fmt.Sprintf("sketch ForEach: got %d entries want %d", len(got), len(want))
	}
	for i := range got {
		if !obs.FEq(got[i].V, want[i].V) || !obs.FEq(got[i].W, want[i].W) {
			return fmt.Sprintf("sketch ForEach entry %d: got %v want %v", i, got[i], want[i])
		}
	}
	return ""
}

func sortVW(e []obs.VW) {
	sort.SliceStable(e, func(i, j int) bool {
		if e[i].V != e[j].V {
			return e[i].V < e[j].V
		}
		return e[i].W < e[j].W
	})
}

// entries: the (value, weight) pairs sketch iteration must yield.
func (k *skModel) entries(c skCfg) []obs.VW {
	var e []obs.VW
	if k.zero != 0 {
		e = append(e, obs.VW{V: 0, W: k.zero})
	}
	for _, b := range k.expectPos(c).Sorted() {
		e = append(e, obs.VW{V: k.m.Value(b.Index), W: b.Count})
	}
	for _, b := range k.expectNeg(c).Sorted() {
		e = append(e, obs.VW{V: -k.m.Value(b.Index), W: b.Count})
	}
	sortVW(e)
	return e
}

// binMin / binMax: the extremes a plain sketch reports: the representative of the extreme bin, or 0 for the zero bucket.
func (k *skModel) binMin(c skCfg) float64 {
	if en := k.expectNeg(c); len(en) > 0 {
		_, mx, _ := en.MinMax()
		return -k.m.Value(mx)
	}
	if k.zero > 0 {
		return 0
	}
	mn, _, _ := k.expectPos(c).MinMax()
	return k.m.Value(mn)
}

func (k *skModel) binMax(c skCfg) float64 {
	if ep := k.expectPos(c); len(ep) > 0 {
		_, mx, _ := ep.MinMax()
		return k.m.Value(mx)
	}
	if k.zero > 0 {
		return 0
	}
	mn, _, _ := k.expectNeg(c).MinMax()
	return -k.m.Value(mn)
}

// slack is the floating-point forward-error allowance of DESIGN §1.1 for value v in bin i of mapping m.
func slack(m mapping.IndexMapping, v float64, i int) float64 {
	g, off := gen.GammaOf(m)
	return 64 * 0x1p-52 * (1 + math.Abs(math.Log(math.Abs(v))) + (math.Abs(float64(i))+math.Abs(off))*math.Log(g))
}

// alphaOf returns the accuracy a configuration promises: the configured one when known, else the one the mapping reports.
func alphaOf(c skCfg) float64 {
	if c.spec.Nominal > 0 {
		return c.spec.Nominal
	}
	return c.m.RelativeAccuracy()
}

// withinAlpha: y is within relative error alpha (+slack) of x; x == 0 requires y == 0.
func withinAlpha(m mapping.IndexMapping, alpha, y, x float64) bool {
	if x == 0 {
		return y == 0
	}
	if math.Signbit(x) != math.Signbit(y) || y == 0 {
		return false
	}
	ax := math.Abs(x)
	tol := alpha + slack(m, ax, m.Index(ax))
	return math.Abs(y-x) <= tol*ax
}

// effective returns the value the sketch is documented to treat v as: magnitudes not above the smallest indexable value count as 0.
func effective(m mapping.IndexMapping, v float64) float64 {
	if math.Abs(v) <= m.MinIndexableValue() {
		return 0
	}
	return v
}

var _ = ddsketch.ErrNegativeCount
