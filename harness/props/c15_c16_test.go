package props

import (
	"bytes"
	"fmt"
	"testing"

	"github.com/DataDog/sketches-go/ddsketch/store"

	"pgregory.net/rapid"
	"verifharness/gen"
	"verifharness/layout"
	"verifharness/model"
	"verifharness/obs"
	"verifharness/stats"
)

func init() {
	stats.Rule("C15", "rapid cases (stateful twin): configuration = one of the five store kinds, or a sketch (plain/exact x store kinds x mapping); history H1 built to leave structure behind (wide ranges, collapsed state, pages plus buffer, shifted arrays, statistics); Clear; then history H2 (which may contain further Clears, decode-merges of generated encodings, merges, reweights, copies) applied in lock-step to the cleared object A and to a freshly constructed twin B, with H2's indexes/values drawn relative to H1's cluster (same range, shifted by +-1, +-32, +-N, inside the old array but outside the new window, far away). Oracle: right after Clear every observer reports an empty object; after every step of H2 obs(A) == obs(B) and both equal the exact model of H2 alone. Non-trivial: H1 produced a structural event (layout hook) or >= 5 bins, and H2 has >= 2 mutating steps; distinct by hash of the operation log.")
	stats.Rule("C16", "rapid cases (metamorphic twin): a store (five kinds) or sketch (both variants) built by a generated history (paginated stores get bursts of unit adds plus scattered unit adds so that indexes live both in the buffer and in pages; collapsing stores get spreads beyond N), then Reweight(w) with w from the dyadic factor set, possibly several in sequence with further operations in between; the twin is a fresh object of the same configuration that replays the same history with every weight multiplied by w (unit adds thereby take the weighted path). Oracle: obs(reweighted) == obs(twin) bit for bit, both equal w * model; Reweight(1) is an observable no-op; exact variant: count*w exact, min/max bitwise unchanged, sum within the derived bound. Non-trivial: w != 1 and the object holds >= 2 bins (sketch: both sides non-empty or zero bucket non-empty); for paginated stores with the hook: buffer and pages both in use at reweighting time; distinct by hash of the operation log.")
}

// ---------------------------------------------------------------- C16 stores

var c16StoreKinds = []string{"simple", "simple", "simple", "simple", "merge", "decmerge", "protomerge", "copy", "encdec", "proto", "clear"}

func TestC16_Stores(t *testing.T) {
	rapid.Check(t, func(t *rapid.T) {
		cl := newCase("C16")
		kind := gen.AnyKind().Draw(t, "kind")
		bud := model.NewBudget(gen.Quantum)
		span := rapid.SampledFrom([]int{3, 40, 100, 300, 2000}).Draw(t, "span")
		if kind.Collapsing() {
			span = kind.N*rapid.SampledFrom([]int{1, 2, 5}).Draw(t, "spread")/2 + 1
			if span > 4000 {
				span = 4000
			}
		}
		base := gen.ClusterBase(span+2).Draw(t, "base")
		g := &opGen{base: base, span: span, bud: bud, kinds: c16StoreKinds}
		a := newSUT(kind, bud, cl)
		b := newSUT(kind, bud, newCase("scratch"))
		cl.logf("C16 store kind=%s base=%d span=%d", kind, base, span)
		cl.label("kind:" + kind.Name)
		cl.label("level:store")
		nontrivial := false
		var hist []sop // everything applied to a so far, in unscaled weights relative to the twin's scale
		rounds := rapid.IntRange(1, 3).Draw(t, "rounds")
		for r := 0; r < rounds; r++ {
			n := rapid.IntRange(1, 25).Draw(t, "ops")
			for i := 0; i < n; i++ {
				// headroom: the twin will hold the same content scaled by up to 64
				op := g.drawOp(t, a)
				if !bud.Fits(64 * (a.m.Total() + opWeight(op) + 200)) {
					op = sop{Kind: "addw", Index: g.index(t), W: 0}
				}
				cl.logf("%s", op)
				if msg := a.apply(op); msg != "" {
					t.Fatalf("C16 %s after %s: %s", kind, op, msg)
				}
				if msg := b.apply(op); msg != "" {
					t.Fatalf("C16 %s twin after %s: %s", kind, op, msg)
				}
				hist = append(hist, op)
			}
			f := gen.ReweightFactor().Draw(t, "factor")
			if f.F != 1 && !bud.FitsAfterFactor(a.m.Total()+200, f.F*2, f.Shift) {
				f = gen.Factor{F: 1}
			}
			lay := layout.Of(a.s)
			if layout.Enabled && kind.Name == "paginated" && lay.BufferLen > 0 && lay.NumPages > 0 {
				cl.label("paginated-buffer-and-pages-at-reweight")
			}
			if kind.Collapsing() && a.m.Folded(kind.N) {
				cl.label("collapsed-at-reweight")
			}
			before := a.snapshot()
			cl.logf("Reweight(%v)", f.F)
			if err := a.s.Reweight(f.F); err != nil {
				t.Fatalf("C16 %s: Reweight(%v) refused: %v", kind, f.F, err)
			}
			if f.F == 1 {
				if d := obs.DiffStore(a.snapshot(), before); d != "" {
					t.Fatalf("C16 %s: Reweight(1) changed the store: %s", kind, d)
				}
				cl.label("w=1")
			} else {
				a.m.Scale(f.F)
				bud.P += f.Shift
				// twin: a fresh store replaying the whole history with scaled weights
				b = newSUT(kind, bud, newCase("scratch"))
				var scaledHist []sop
				for _, op := range hist {
					scaledHist = append(scaledHist, op.scaled(f.F)...)
				}
				for _, op := range scaledHist {
					if msg := b.apply(op); msg != "" {
						t.Fatalf("C16 %s twin replay of %s: %s", kind, op, msg)
					}
				}
				hist = scaledHist
				cl.labelIf(f.F < 1, "w<1")
				cl.labelIf(f.F > 1, "w>1")
				if len(a.exp()) >= 2 {
					nontrivial = true
				}
			}
			if msg := a.invariant(); msg != "" {
				t.Fatalf("C16 %s: after Reweight(%v) the store differs from %v * model %s: %s", kind, f.F, f.F, a.exp(), msg)
			}
			ranks := a.ranks()
			if d := obs.DiffStore(obs.Store(a.s, ranks), obs.Store(b.s, ranks)); d != "" {
				t.Fatalf("C16 %s: reweighted store differs from a store that was fed scaled weights: %s", kind, d)
			}
		}
		if kind.Name == "paginated" && layout.Enabled {
			nontrivial = nontrivial && cl.has("paginated-buffer-and-pages-at-reweight")
		}
		cl.done(nontrivial)
	})
}

// ---------------------------------------------------------------- C16 sketches

var c16SketchKinds = []string{"add", "add", "add", "add", "burst", "merge", "decmerge", "copy", "encdec", "clear", "vanish"}

func TestC16_Sketch(t *testing.T) {
	rapid.Check(t, func(t *rapid.T) {
		cl := newCase("C16")
		c := drawCfg(t, cfgOpt{alphaLo: 1e-3, alphaHi: 0.3, collapsing: true, exact: 2})
		d := drawDomain(t, c.m, windowFor(c))
		prof := drawProfile(t)
		bud := model.NewBudget(gen.Quantum)
		a := newSkUT(c, d, bud, cl)
		b := newSkUT(c, d, bud, newCase("scratch"))
		g := &kopGen{dom: d, prof: prof, bud: bud, kinds: c16SketchKinds, collapsing: true}
		cl.logf("C16 sketch %s", c)
		cl.label("level:sketch")
		cl.label("kind:" + c.pos.Name)
		cl.labelIf(c.exact, "variant:exact")
		nontrivial := false
		var hist []kop
		rounds := rapid.IntRange(1, 3).Draw(t, "rounds")
		for r := 0; r < rounds; r++ {
			n := rapid.IntRange(1, 20).Draw(t, "ops")
			for i := 0; i < n; i++ {
				op := g.drawOp(t, a)
				if !bud.Fits(64 * (a.k.total() + kopWeight(op) + 200)) {
					op = kop{Kind: "addw", V: a.safeV, W: 0}
				}
				cl.logf("%s", op)
				if msg := a.apply(op); msg != "" {
					t.Fatalf("C16 %s after %s: %s", c, op, msg)
				}
				if msg := b.apply(op); msg != "" {
					t.Fatalf("C16 %s twin after %s: %s", c, op, msg)
				}
				hist = append(hist, op)
			}
			f := gen.ReweightFactor().Draw(t, "factor")
			if f.F != 1 && !bud.FitsAfterFactor(a.k.total()+200, f.F*2, f.Shift) {
				f = gen.Factor{F: 1}
			}
			if layout.Enabled && c.pos.Name == "paginated" {
				if lay := layout.Of(a.s.Pos()); lay.BufferLen > 0 && lay.NumPages > 0 {
					cl.label("paginated-buffer-and-pages-at-reweight")
				}
			}
			before := a.fullObs(a.s, a.k, c)
			cl.logf("Reweight(%v)", f.F)
			if err := a.s.Reweight(f.F); err != nil {
				t.Fatalf("C16 %s: Reweight(%v) refused: %v", c, f.F, err)
			}
			if f.F == 1 {
				if dd := obs.DiffSketch(a.fullObs(a.s, a.k, c), before, a.diffOpts()); dd != "" {
					t.Fatalf("C16 %s: Reweight(1) changed the sketch: %s", c, dd)
				}
				cl.label("w=1")
			} else {
				a.k.scale(f.F)
				a.inex++
				bud.P += f.Shift
				b = newSkUT(c, d, bud, newCase("scratch"))
				var scaledHist []kop
				for _, op := range hist {
					scaledHist = append(scaledHist, op.scaled(f.F)...)
				}
				for _, op := range scaledHist {
					if msg := b.apply(op); msg != "" {
						t.Fatalf("C16 %s twin replay of %s: %s", c, op, msg)
					}
				}
				hist = scaledHist
				cl.labelIf(f.F < 1, "w<1")
				cl.labelIf(f.F > 1, "w>1")
				sides := 0
				if len(a.k.pos) > 0 {
					sides++
				}
				if len(a.k.neg) > 0 {
					sides++
				}
				if sides == 2 || a.k.zero > 0 {
					nontrivial = true
				}
				cl.labelIf(sides == 2, "both-sides")
				cl.labelIf(a.k.zero > 0, "zero-bucket")
			}
			if msg := a.invariant(); msg != "" {
				t.Fatalf("C16 %s: after Reweight(%v): %s", c, f.F, msg)
			}
			if msg := b.invariant(); msg != "" {
				t.Fatalf("C16 %s: twin fed scaled weights: %s", c, msg)
			}
			oa, ob := a.fullObs(a.s, a.k, c), b.fullObs(b.s, a.k, c)
			if dd := obs.DiffSketch(oa, ob, obs.DiffOpts{IgnoreSum: true}); dd != "" {
				t.Fatalf("C16 %s: reweighted sketch differs from a sketch that was fed scaled weights: %s", c, dd)
			}
		}
		cl.done(nontrivial)
	})
}

// ---------------------------------------------------------------- C15 stores

var c15StoreKinds = []string{"simple", "simple", "simple", "simple", "merge", "decmerge", "protomerge", "copy", "encdec", "encdouble", "proto", "reweight", "clear"}

func shiftedBase(t *rapid.T, base, span int, n int) int {
	sh := rapid.SampledFrom([]int{0, 0, 1, -1, 32, -32, 64, -64, n, -n, span, -span, 2 * span, 100000, -100000}).Draw(t, "h2shift")
	return base + sh
}

func TestC15_Stores(t *testing.T) {
	rapid.Check(t, func(t *rapid.T) {
		cl := newCase("C15")
		kind := gen.AnyKind().Draw(t, "kind")
		bud := model.NewBudget(gen.Quantum)
		span := rapid.SampledFrom([]int{3, 40, 100, 300, 2000}).Draw(t, "span")
		if kind.Collapsing() {
			span = kind.N*rapid.SampledFrom([]int{1, 2, 5}).Draw(t, "spread")/2 + 1
			if span > 4000 {
				span = 4000
			}
		}
		base := gen.ClusterBase(2*span+200002).Draw(t, "base")
		g1 := &opGen{base: base, span: span, bud: bud, kinds: c15StoreKinds}
		a := newSUT(kind, bud, cl)
		cl.logf("C15 store kind=%s base=%d span=%d", kind, base, span)
		cl.label("kind:" + kind.Name)
		cl.label("level:store")
		n1 := rapid.IntRange(1, 30).Draw(t, "h1")
		for i := 0; i < n1; i++ {
			op := g1.drawOp(t, a)
			cl.logf("H1 %s", op)
			if msg := a.apply(op); msg != "" {
				t.Fatalf("C15 %s H1 after %s: %s", kind, op, msg)
			}
		}
		structural := 0
		for e, n := range a.events {
			cl.label("h1-event:" + e)
			structural += n
		}
		h1bins := len(a.exp())
		cl.labelIf(kind.Collapsing() && a.m.Folded(kind.N), "collapsed-before-clear")
		if layout.Enabled && kind.Name == "paginated" {
			cl.labelIf(layout.Of(a.s).NumPages > 0, "pages-before-clear")
		}
		cycles := 0
		mutating := 0
		b := newSUT(kind, bud, newCase("scratch"))
		// what precedes a Clear may be anything the API accepts, including weights that vanish or overflow (the
		// model does not follow these: the content is about to be discarded)
		preClear := func() {
			switch rapid.IntRange(0, 7).Draw(t, "preclear") {
			case 0:
				_ = a.s.Reweight(1e-200)
				_ = a.s.Reweight(1e-200)
				_ = a.s.Reweight(1e-200)
				cl.logf("Reweight(1e-200) x3: every weight underflows to 0")
				cl.label("preclear:weights-underflow-to-zero")
			case 1:
				i := g1.index(t)
				a.s.AddWithCount(i, 1.5e308)
				a.s.AddWithCount(i, 1.5e308)
				cl.logf("AddWithCount(%d,1.5e308) x2: infinite weight", i)
				cl.label("preclear:infinite-weight")
			case 2:
				_ = a.s.Reweight(1e300)
				_ = a.s.Reweight(1e300)
				cl.logf("Reweight(1e300) x2")
				cl.label("preclear:infinite-weight")
			}
		}
		clearBoth := func() {
			preClear()
			cl.logf("Clear")
			a.s.Clear()
			a.m.Clear()
			// the twin is a brand new store
			b = newSUT(kind, bud, newCase("scratch"))
			cycles++
			if d := obs.DiffStore(obs.Store(a.s, []float64{0}), obs.ExpectStore(model.Map{}, nil)); d != "" {
				t.Fatalf("C15 %s: right after Clear the store is not empty: %s", kind, d)
			}
		}
		clearBoth()
		g2 := &opGen{base: shiftedBase(t, base, span, kind.N), span: span, bud: bud, kinds: c15StoreKinds}
		cl.logf("H2 base=%d", g2.base)
		cl.labelIf(g2.base != base, "h2-shifted-range")
		n2 := rapid.IntRange(1, 25).Draw(t, "h2")
		for i := 0; i < n2; i++ {
			op := g2.drawOp(t, a)
			if op.Kind == "clear" {
				clearBoth()
				g2.base = shiftedBase(t, base, span, kind.N)
				continue
			}
			cl.logf("H2 %s", op)
			if msg := a.apply(op); msg != "" {
				t.Fatalf("C15 %s (cleared store) H2 after %s: %s", kind, op, msg)
			}
			if msg := b.apply(op); msg != "" {
				t.Fatalf("C15 %s (fresh store) H2 after %s: %s", kind, op, msg)
			}
			mutating++
			if msg := a.invariant(); msg != "" {
				t.Fatalf("C15 %s: cleared-and-reused store differs from the model of the history after Clear %s: %s", kind, a.exp(), msg)
			}
			ranks := a.ranks()
			if d := obs.DiffStore(obs.Store(a.s, ranks), obs.Store(b.s, ranks)); d != "" {
				t.Fatalf("C15 %s: after %s the cleared-and-reused store differs from a fresh store given the same history: %s", kind, op, d)
			}
		}
		cl.labelIf(cycles > 1, "repeated-cycles")
		cl.done((structural > 0 || h1bins >= 5) && mutating >= 2)
	})
}

// ---------------------------------------------------------------- C15 sketches

var c15SketchKinds = []string{"add", "add", "add", "add", "burst", "merge", "decmerge", "decmerge", "deczeros", "copy", "encdec", "reweight", "clear"}

func TestC15_Sketch(t *testing.T) {
	rapid.Check(t, func(t *rapid.T) {
		cl := newCase("C15")
		c := drawCfg(t, cfgOpt{alphaLo: 1e-3, alphaHi: 0.3, collapsing: true, exact: 2})
		d := drawDomain(t, c.m, windowFor(c))
		prof := drawProfile(t)
		bud := model.NewBudget(gen.Quantum)
		a := newSkUT(c, d, bud, cl)
		g := &kopGen{dom: d, prof: prof, bud: bud, kinds: c15SketchKinds, collapsing: true}
		cl.logf("C15 sketch %s", c)
		cl.label("level:sketch")
		cl.label("kind:" + c.pos.Name)
		cl.labelIf(c.exact, "variant:exact")
		n1 := rapid.IntRange(1, 25).Draw(t, "h1")
		for i := 0; i < n1; i++ {
			op := g.drawOp(t, a)
			cl.logf("H1 %s", op)
			if msg := a.apply(op); msg != "" {
				t.Fatalf("C15 %s H1 after %s: %s", c, op, msg)
			}
		}
		h1bins := len(a.k.pos) + len(a.k.neg)
		cl.labelIf((c.pos.Collapsing() && a.k.pos.Folded(c.pos.N)) || (c.neg.Collapsing() && a.k.neg.Folded(c.neg.N)), "collapsed-before-clear")
		var b *skUT
		cycles, mutating := 0, 0
		clearBoth := func() {
			switch rapid.IntRange(0, 7).Draw(t, "preclear") {
			case 0:
				_ = a.s.Reweight(1e-200)
				_ = a.s.Reweight(1e-200)
				_ = a.s.Reweight(1e-200)
				cl.logf("Reweight(1e-200) x3: every weight underflows to 0")
				cl.label("preclear:weights-underflow-to-zero")
			case 1:
				_ = a.s.AddWithCount(a.safeV, 1.5e308)
				_ = a.s.AddWithCount(a.safeV, 1.5e308)
				_ = a.s.AddWithCount(-a.safeV, 1.5e308)
				cl.logf("AddWithCount(+-%v,1.5e308): infinite weight", a.safeV)
				cl.label("preclear:infinite-weight")
			case 2:
				_ = a.s.Reweight(1e300)
				_ = a.s.Reweight(1e300)
				cl.logf("Reweight(1e300) x2")
				cl.label("preclear:infinite-weight")
			}
			cl.logf("Clear")
			a.s.Clear()
			a.k.clear()
			a.inex, a.lossy = 0, false
			b = newSkUT(c, d, bud, newCase("scratch"))
			cycles++
			if msg := a.invariant(); msg != "" {
				t.Fatalf("C15 %s: right after Clear the sketch is not empty: %s", c, msg)
			}
			if !a.s.IsEmpty() || a.s.GetCount() != 0 || a.s.GetZeroCount() != 0 || a.s.GetSum() != 0 {
				t.Fatalf("C15 %s: right after Clear: empty=%v count=%v zero=%v sum=%v", c, a.s.IsEmpty(), a.s.GetCount(), a.s.GetZeroCount(), a.s.GetSum())
			}
			if _, err := a.s.GetValueAtQuantile(0.5); err == nil {
				t.Fatalf("C15 %s: a cleared sketch answers quantile queries", c)
			}
		}
		clearBoth()
		// H2 may use another sign profile / window than H1
		g2 := &kopGen{dom: d, prof: drawProfile(t), bud: bud, kinds: c15SketchKinds, collapsing: true}
		if rapid.Bool().Draw(t, "h2window") {
			g2.dom = drawDomain(t, c.m, windowFor(c))
			// keep H2 within reach of H1's window for dense stores (memory)
			if !c.bothSparse() && (g2.dom.lo > d.hi+(1<<14) || g2.dom.hi < d.lo-(1<<14)) {
				g2.dom = d
			}
			cl.label("h2-other-window")
		}
		n2 := rapid.IntRange(1, 20).Draw(t, "h2")
		for i := 0; i < n2; i++ {
			op := g2.drawOp(t, a)
			if op.Kind == "clear" {
				clearBoth()
				continue
			}
			cl.logf("H2 %s", op)
			if msg := a.apply(op); msg != "" {
				t.Fatalf("C15 %s (cleared sketch) H2 after %s: %s", c, op, msg)
			}
			if msg := b.apply(op); msg != "" {
				t.Fatalf("C15 %s (fresh sketch) H2 after %s: %s", c, op, msg)
			}
			mutating++
			cl.labelIf(op.Kind == "decmerge", "cleared-sketch-as-decode-target")
			if msg := a.invariant(); msg != "" {
				t.Fatalf("C15 %s: cleared-and-reused sketch differs from the model of the history after Clear: %s", c, msg)
			}
			oa, ob := a.fullObs(a.s, a.k, c), b.fullObs(b.s, a.k, c)
			if dd := obs.DiffSketch(oa, ob, obs.DiffOpts{IgnoreSum: !c.exact && c.anySparse()}); dd != "" {
				t.Fatalf("C15 %s: after %s the cleared-and-reused sketch differs from a fresh sketch given the same history: %s", c, op, dd)
			}
		}
		cl.labelIf(cycles > 1, "repeated-cycles")
		cl.label(fmt.Sprintf("cycles:%d", min(cycles, 3)))
		cl.done(h1bins >= 5 && mutating >= 2)
	})
}

// TestC15_ManyPages: a paginated store (the other kinds run too) that held several hundred allocated pages before
// Clear - more than any few-dozen-step history allocates - then a post-clear history on it and on a fresh twin that
// allocates pages left and right of the first one, decodes contiguous blocks and receives bursts of unit entries.
func TestC15_ManyPages(t *testing.T) {
	rapid.Check(t, func(t *rapid.T) {
		cl := newCase("C15")
		kind := rapid.SampledFrom([]gen.StoreKind{{Name: "paginated"}, {Name: "paginated"}, {Name: "paginated"}, {Name: "dense"}, {Name: "sparse"}}).Draw(t, "kind")
		a, b := kind.New(), kind.New()
		pages := rapid.IntRange(200, 700).Draw(t, "pages")
		first := rapid.IntRange(-400, 400).Draw(t, "firstpage")
		stride := rapid.SampledFrom([]int{1, 1, 2, 3}).Draw(t, "pagestride")
		for p := 0; p < pages; p++ {
			a.AddWithCount(32*(first+p*stride)+rapid.IntRange(0, 31).Draw(t, "line"), 2.5)
		}
		cl.logf("C15 many pages kind=%s pages=%d first=%d stride=%d", kind, pages, first, stride)
		cl.label("many-pages-before-clear")
		cl.labelIf(pages > 256, "pages>256")
		cl.label("kind:" + kind.Name)
		cycles := rapid.IntRange(1, 2).Draw(t, "cycles")
		for c := 0; c < cycles; c++ {
			a.Clear()
			b = kind.New()
			n := rapid.IntRange(2, 12).Draw(t, "post")
			for i := 0; i < n; i++ {
				page := first + rapid.IntRange(-20, pages*stride+20).Draw(t, "page")
				idx := 32*page + rapid.IntRange(0, 31).Draw(t, "pline")
				switch rapid.IntRange(0, 3).Draw(t, "postop") {
				case 0:
					w := rapid.SampledFrom([]float64{0.5, 2, 3.25}).Draw(t, "w")
					cl.logf("AddWithCount(%d,%v)", idx, w)
					a.AddWithCount(idx, w)
					b.AddWithCount(idx, w)
				case 1:
					k := rapid.IntRange(1, 40).Draw(t, "burst")
					cl.logf("Add(%d) x%d", idx, k)
					for j := 0; j < k; j++ {
						a.Add(idx)
						b.Add(idx)
					}
				case 2:
					// a contiguous block spanning a few pages, decoded
					src := store.NewDenseStore()
					for j, m := 0, rapid.IntRange(20, 100).Draw(t, "run"); j < m; j++ {
						src.AddWithCount(idx+j, 1.5)
					}
					enc := encodeStore(src)
					cl.logf("decode of a run of bins from %d", idx)
					if err := decodeInto(a, enc); err != nil {
						t.Fatalf("C15 many pages: decode: %v", err)
					}
					_ = decodeInto(b, enc)
				default:
					o := kind.New()
					o.AddWithCount(idx, 4)
					o.Add(idx + 33)
					cl.logf("merge {%d:4, %d:1}", idx, idx+33)
					a.MergeWith(o)
					b.MergeWith(o)
				}
				ga, gb := map[int]float64{}, map[int]float64{}
				a.ForEach(func(i int, c float64) bool { ga[i] += c; return false })
				b.ForEach(func(i int, c float64) bool { gb[i] += c; return false })
				if fmt.Sprint(ga) != fmt.Sprint(gb) {
					t.Fatalf("C15 many pages %s: cleared store holds %v, a new store given the same operations %v", kind, ga, gb)
				}
				amn, _ := a.MinIndex()
				bmn, _ := b.MinIndex()
				amx, _ := a.MaxIndex()
				bmx, _ := b.MaxIndex()
				if a.TotalCount() != b.TotalCount() || amn != bmn || amx != bmx || a.KeyAtRank(1) != b.KeyAtRank(1) {
					t.Fatalf("C15 many pages %s: cleared (total %v, range [%d,%d], rank1 %d) vs new (total %v, range [%d,%d], rank1 %d)", kind, a.TotalCount(), amn, amx, a.KeyAtRank(1), b.TotalCount(), bmn, bmx, b.KeyAtRank(1))
				}
			}
			if !bytes.Equal(encodeStore(a), encodeStore(b)) && kind.Name != "sparse" {
				t.Fatalf("C15 many pages %s: the encodings of the cleared store and of the new one differ", kind)
			}
			// refill for the next cycle
			for p := 0; p < pages; p++ {
				a.AddWithCount(32*(first+p*stride)+7, 2.5)
			}
		}
		cl.done(pages > 256 && kind.Name == "paginated")
	})
}
