package props

import (
	"bytes"
	"fmt"
	"math"

	"github.com/DataDog/sketches-go/ddsketch"
	"github.com/DataDog/sketches-go/ddsketch/mapping"
	"pgregory.net/rapid"
	"verifharness/gen"
	"verifharness/model"
	"verifharness/obs"
	"verifharness/refdec"
)

// Sketch operations as data (same idea as storeops_test.go).

type kop struct {
	Kind   string // add addw bad merge decmerge copy clear reweight encdec
	V, W   float64
	Other  *kSub
	Factor gen.Factor
	Omit   bool
	Prefix []byte
	Burst  []float64 // unit adds of nearby values
	Stream []byte    // deczeros: a well-formed stream that carries no weight
}

type kSub struct {
	cfg skCfg
	ops []kop
}

func (o kop) String() string {
	switch o.Kind {
	case "add":
		return fmt.Sprintf("Add(%v)", o.V)
	case "addw":
		return fmt.Sprintf("AddWithCount(%v,%v)", o.V, o.W)
	case "bad":
		return fmt.Sprintf("AddWithCount(%v,%v)!", o.V, o.W)
	case "badmerge":
		return fmt.Sprintf("MergeWith(mismatching mapping, otherkind=%v)!", o.Omit)
	case "vanish":
		return "Reweight(2^-600) x3"
	case "merge", "decmerge":
		return fmt.Sprintf("%s(pos=%s neg=%s exact=%v %v)", o.Kind, o.Other.cfg.pos, o.Other.cfg.neg, o.Other.cfg.exact, o.Other.ops)
	case "reweight":
		return fmt.Sprintf("Reweight(%v)", o.Factor.F)
	case "encdec":
		return fmt.Sprintf("encdec(omit=%v,prefix=%d)", o.Omit, len(o.Prefix))
	case "deczeros":
		return fmt.Sprintf("DecodeAndMergeWith(weightless stream % x)", o.Stream)
	case "burst":
		if len(o.Burst) > 4 {
			return fmt.Sprintf("Burst(n=%d,%v…)", len(o.Burst), o.Burst[:4])
		}
		return fmt.Sprintf("Burst(%v)", o.Burst)
	}
	return o.Kind
}

// scaled returns the operation with every weight multiplied by f (unit adds become weighted adds): what C16's twin replays.
func (o kop) scaled(f float64) []kop {
	switch o.Kind {
	case "add":
		return []kop{{Kind: "addw", V: o.V, W: f}}
	case "addw":
		return []kop{{Kind: "addw", V: o.V, W: o.W * f}}
	case "burst":
		out := make([]kop, len(o.Burst))
		for i, v := range o.Burst {
			out[i] = kop{Kind: "addw", V: v, W: f}
		}
		return out
	case "merge", "decmerge":
		sub := &kSub{cfg: o.Other.cfg}
		for _, x := range o.Other.ops {
			sub.ops = append(sub.ops, x.scaled(f)...)
		}
		c := o
		c.Other = sub
		return []kop{c}
	}
	return []kop{o}
}

type kopGen struct {
	dom        valDom
	prof       signProfile
	bud        *model.Budget
	kinds      []string
	collapsing bool // merge arguments may use collapsing stores
	light      bool // light weights only
}

func (g *kopGen) weight(t *rapid.T) float64 {
	if g.light {
		return gen.LightWeight().Draw(t, "w")
	}
	return gen.Weight(true).Draw(t, "w")
}

func (g *kopGen) drawAdd(t *rapid.T, total float64) kop {
	v, _, _ := g.dom.value(t, g.prof)
	if rapid.Bool().Draw(t, "unit") {
		if g.bud.Fits(total + 1) {
			return kop{Kind: "add", V: v}
		}
		return kop{Kind: "addw", V: v, W: 0}
	}
	w := g.weight(t)
	if !g.bud.Fits(total + w) {
		w = 0
	}
	return kop{Kind: "addw", V: v, W: w}
}

func (g *kopGen) drawBad(t *rapid.T) kop {
	mx := g.dom.m.MaxIndexableValue()
	v := rapid.SampledFrom([]float64{math.NaN(), math.Inf(1), math.Inf(-1), gen.NextUp(mx, 1), -gen.NextUp(mx, 1), math.MaxFloat64, -math.MaxFloat64, mx * 2, 1, -1, 0}).Draw(t, "badv")
	w := 1.0
	if v == 1 || v == -1 || v == 0 || rapid.IntRange(0, 3).Draw(t, "badw") == 0 {
		w = rapid.SampledFrom([]float64{-1, -0.5, -math.SmallestNonzeroFloat64, math.Inf(-1), -1e300}).Draw(t, "negw")
	}
	return kop{Kind: "bad", V: v, W: w}
}

func (g *kopGen) drawSub(t *rapid.T, c skCfg, exact bool, total float64) *kSub {
	oc := skCfg{spec: c.spec, m: c.m, exact: exact}
	kg := gen.NonCollapsingKind()
	if g.collapsing {
		kg = gen.AnyKind()
	}
	oc.pos = kg.Draw(t, "argpos")
	oc.neg = kg.Draw(t, "argneg")
	if rapid.IntRange(0, 2).Draw(t, "argsamekind") == 0 {
		oc.pos, oc.neg = c.pos, c.neg
	}
	if exact {
		oc.neg = oc.pos
	}
	h := &kSub{cfg: oc}
	n := rapid.IntRange(0, 12).Draw(t, "subn")
	sub := 0.0
	for i := 0; i < n; i++ {
		if i > 0 && rapid.IntRange(0, 11).Draw(t, "subclear") == 0 {
			h.ops = append(h.ops, kop{Kind: "clear"})
			sub = 0
			continue
		}
		var op kop
		switch rapid.IntRange(0, 24).Draw(t, "subbulk") {
		case 0:
			// many thinly spread unit entries: a paginated argument keeps them in its buffer, its encoding carries one
			// long index-delta block, which a paginated receiver decodes in several batches
			op = g.drawSpread(t, total+sub)
		case 1:
			op = g.drawBurst(t, total+sub)
		default:
			op = g.drawAdd(t, total+sub)
		}
		sub += kopWeight(op)
		h.ops = append(h.ops, op)
	}
	return h
}

func kopWeight(o kop) float64 {
	switch o.Kind {
	case "add":
		return 1
	case "addw":
		return o.W
	case "burst":
		return float64(len(o.Burst))
	}
	return 0
}

// drawSpread draws 65..160 unit adds whose bins are 33 indexes apart, in shuffled order: in a paginated store
// they all stay in the buffer (no page gets 32 entries), which makes encodings with long index-delta blocks
// and decoders that work in batches.
func (g *kopGen) drawSpread(t *rapid.T, total float64) kop {
	n := rapid.IntRange(65, 160).Draw(t, "spreadn")
	if !g.bud.Fits(total + float64(n)) {
		return kop{Kind: "addw", V: g.dom.clamp(g.dom.m.Value(g.dom.lo)), W: 0}
	}
	d := g.dom
	centre := d.lo + (d.hi-d.lo)/2
	neg := g.prof.neg && (!g.prof.pos || rapid.Bool().Draw(t, "spreadneg"))
	ks := rapid.Permutation(func() []int {
		o := make([]int, n)
		for i := range o {
			o[i] = i - n/2
		}
		return o
	}()).Draw(t, "spreadorder")
	var vs []float64
	for _, k := range ks {
		i := centre + 33*k
		if i <= d.minIdx || i >= d.maxIdx {
			continue
		}
		if d.wideLo < d.wideHi && (i < d.wideLo || i > d.wideHi) {
			continue // the test keeps all values within a range of magnitudes (unit changes must stay well inside every mapping's range)
		}
		v := d.clamp(d.m.Value(i))
		if neg {
			v = -v
		}
		vs = append(vs, v)
	}
	return kop{Kind: "burst", Burst: vs}
}

// drawTwoRuns draws two runs of consecutive bins (each bin hit once or twice) separated by a gap of 33..100 empty bins:
// a dense store encodes the whole extent contiguously, zeros included, and a paginated decoder of that block
// allocates whole pages that stay empty.
func (g *kopGen) drawTwoRuns(t *rapid.T, total float64) kop {
	r1 := rapid.IntRange(20, 60).Draw(t, "run1")
	gap := rapid.IntRange(33, 100).Draw(t, "rungap")
	r2 := rapid.IntRange(20, 60).Draw(t, "run2")
	d := g.dom
	if !g.bud.Fits(total+float64(2*(r1+r2))) || d.hi-d.lo < r1+gap+r2+2 {
		return kop{Kind: "addw", V: d.clamp(d.m.Value(d.lo)), W: 0}
	}
	lo := rapid.IntRange(d.lo, d.hi-(r1+gap+r2)).Draw(t, "runlo")
	neg := g.prof.neg && (!g.prof.pos || rapid.Bool().Draw(t, "runneg"))
	var vs []float64
	for i := 0; i < r1+gap+r2; i++ {
		if i >= r1 && i < r1+gap {
			continue
		}
		v := d.clamp(d.m.Value(lo + i))
		if neg {
			v = -v
		}
		vs = append(vs, v)
		if rapid.IntRange(0, 3).Draw(t, "runtwice") == 0 {
			vs = append(vs, v)
		}
	}
	return kop{Kind: "burst", Burst: vs}
}

// drawBurst draws many unit adds inside a narrow sub-window (what makes the paginated store create pages and compact).
func (g *kopGen) drawBurst(t *rapid.T, total float64) kop {
	n := rapid.IntRange(20, 160).Draw(t, "burstn")
	if !g.bud.Fits(total + float64(n)) {
		return kop{Kind: "addw", V: g.dom.clamp(g.dom.m.Value(g.dom.lo)), W: 0}
	}
	d := g.dom
	w := rapid.SampledFrom([]int{1, 4, 32, 64}).Draw(t, "burstw")
	lo := rapid.IntRange(d.lo, d.hi).Draw(t, "burstlo")
	hi := lo + w - 1
	if hi > d.hi {
		hi = d.hi
	}
	neg := g.prof.neg && (!g.prof.pos || rapid.Bool().Draw(t, "burstneg"))
	vs := make([]float64, n)
	for i := range vs {
		v := d.clamp(d.m.Value(rapid.IntRange(lo, hi).Draw(t, "bursti")))
		if neg {
			v = -v
		}
		vs[i] = v
	}
	return kop{Kind: "burst", Burst: vs}
}

func (h *kSub) build() (obs.SK, *skModel) {
	s := h.cfg.new()
	k := newSkModel(h.cfg.m)
	for _, op := range h.ops {
		switch op.Kind {
		case "add":
			if err := s.Add(op.V); err != nil {
				panic(fmt.Sprintf("harness: sub-history Add(%v): %v", op.V, err))
			}
			k.add(op.V, 1)
		case "addw":
			if err := s.AddWithCount(op.V, op.W); err != nil {
				panic(fmt.Sprintf("harness: sub-history AddWithCount(%v,%v): %v", op.V, op.W, err))
			}
			k.add(op.V, op.W)
		case "burst":
			for _, v := range op.Burst {
				if err := s.Add(v); err != nil {
					panic(fmt.Sprintf("harness: sub-history Add(%v): %v", v, err))
				}
				k.add(v, 1)
			}
		case "clear":
			s.Clear()
			k.clear()
		default:
			panic("harness: sub-history operation " + op.Kind)
		}
	}
	return s, k
}

// skUT: sketch under test with its model.
type skUT struct {
	cfg       skCfg
	s         obs.SK
	k         *skModel
	bud       *model.Budget
	cl        *caseLog
	kinds     map[string]bool
	inex      int // number of operations after which the exact sum may have been re-rounded
	adds      int
	safeV     float64 // a positive value inside the index window (memory-safe for dense stores)
	lossy     bool    // content came through a collapsing store of a merge argument: accuracy w.r.t. raw values is not promised
	nonDyadic bool    // bin weights are products of proportions (after ChangeMapping): sums depend on map iteration order, nothing is compared exactly (DESIGN §1.1)
}

func newSkUT(c skCfg, d valDom, bud *model.Budget, cl *caseLog) *skUT {
	return &skUT{cfg: c, s: c.new(), k: newSkModel(c.m), bud: bud, cl: cl, kinds: map[string]bool{}, safeV: d.clamp(d.m.Value(d.lo + (d.hi-d.lo)/2))}
}

// fullObs: everything observable, with rank probes derived from the model.
func (u *skUT) fullObs(s obs.SK, k *skModel, c skCfg) obs.SketchObs {
	ep, en := k.expectPos(c), k.expectNeg(c)
	return obs.Sketch(s, obs.DefaultQs, ep.ProbeRanks(u.bud.HalfQuantum(), 4), en.ProbeRanks(u.bud.HalfQuantum(), 4))
}

func (u *skUT) diffOpts() obs.DiffOpts {
	return obs.DiffOpts{IgnoreSum: !u.cfg.exact && u.cfg.anySparse()}
}

func decodeSketch(c skCfg, b []byte, withMapping bool) (obs.SK, error) {
	var m mapping.IndexMapping
	if withMapping {
		m = c.m
	}
	if c.exact {
		s, err := ddsketch.DecodeDDSketchWithExactSummaryStatistics(b, c.provider(), m)
		return obs.SK{Exact: s}, err
	}
	s, err := ddsketch.DecodeDDSketch(b, c.provider(), m)
	return obs.SK{Plain: s}, err
}

func (u *skUT) apply(op kop) string {
	switch op.Kind {
	case "add":
		if err := u.s.Add(op.V); err != nil {
			return fmt.Sprintf("Add(%v) refused: %v", op.V, err)
		}
		u.k.add(op.V, 1)
		u.adds++
	case "addw":
		if err := u.s.AddWithCount(op.V, op.W); err != nil {
			return fmt.Sprintf("AddWithCount(%v,%v) refused: %v", op.V, op.W, err)
		}
		u.k.add(op.V, op.W)
		u.adds++
		u.cl.labelIf(op.W == 0, "zero-weight-add")
	case "deczeros":
		if err := u.s.DecodeAndMergeWith(op.Stream); err != nil {
			return fmt.Sprintf("DecodeAndMergeWith refused a well-formed stream whose counts are all zero (% x): %v", op.Stream, err)
		}
	case "burst":
		for _, v := range op.Burst {
			if err := u.s.Add(v); err != nil {
				return fmt.Sprintf("Add(%v) refused: %v", v, err)
			}
			u.k.add(v, 1)
		}
		u.adds += len(op.Burst)
	case "bad":
		err := u.s.AddWithCount(op.V, op.W)
		if err == nil {
			return fmt.Sprintf("AddWithCount(%v,%v) was accepted", op.V, op.W)
		}
		u.cl.label("rejected-add")
	case "badmerge":
		// an argument with another mapping (other kind, or same kind and 30% coarser): the merge must be refused and
		// nothing of the argument may reach the receiver - statistics included (the invariant that follows compares
		// the receiver with its unchanged model)
		ospec := u.cfg.spec
		if op.Omit {
			ospec = gen.MapSpec{Kind: map[string]string{"log": "cubic", "linear": "log", "cubic": "linear"}[gen.KindOf(u.cfg.m)], FromAlpha: true, Alpha: 0.02}
		} else {
			ospec = gen.MapSpec{Kind: gen.KindOf(u.cfg.m), FromAlpha: true, Alpha: math.Min(0.9, u.cfg.m.RelativeAccuracy()*1.3)}
		}
		om, err := ospec.Build()
		if err != nil || om.Equals(u.cfg.m) {
			return ""
		}
		oc := skCfg{spec: ospec, m: om, pos: u.cfg.pos, neg: u.cfg.neg, exact: u.cfg.exact}
		arg := oc.new()
		for _, v := range []float64{1000, -100, 3, 0} {
			_ = arg.AddWithCount(v, 3)
		}
		if err := u.s.MergeWith(arg); err == nil {
			return fmt.Sprintf("MergeWith a sketch whose mapping is %s was accepted", ospec)
		}
		if arg.GetCount() != 12 {
			return fmt.Sprintf("the refused MergeWith changed its argument: count %v", arg.GetCount())
		}
		u.cl.label("refused-merge")
	case "merge", "decmerge":
		arg, ak := op.Other.build()
		oc := op.Other.cfg
		before := u.fullObs(arg, ak, oc)
		if op.Kind == "merge" {
			if err := u.s.MergeWith(arg); err != nil {
				return fmt.Sprintf("MergeWith refused: %v", err)
			}
		} else {
			var b []byte
			arg.Encode(&b, op.Omit)
			if err := u.s.DecodeAndMergeWith(b); err != nil {
				return fmt.Sprintf("DecodeAndMergeWith(Encode(arg, omit=%v)) failed: %v", op.Omit, err)
			}
		}
		if d := obs.DiffSketch(u.fullObs(arg, ak, oc), before, obs.DiffOpts{IgnoreSum: !oc.exact && oc.anySparse()}); d != "" {
			return op.Kind + " changed its argument: " + d
		}
		u.k.merge(ak, oc)
		u.inex++
		if oc.anyCollapsing() {
			u.lossy = true
		}
		// the argument lives on: whatever happens to it afterwards must not reach the receiver
		_ = arg.AddWithCount(u.safeV, 3)
		_ = arg.Add(-u.safeV)
		if !arg.IsEmpty() {
			_ = arg.Reweight(2)
		}
		arg.Clear()
		_ = arg.Add(u.safeV)
		u.cl.labelIf(ak.total() == 0, "empty-argument")
		u.cl.labelIf(oc.pos.Name != u.cfg.pos.Name || oc.neg.Name != u.cfg.neg.Name, "mixed-store-kinds")
		u.cl.labelIf(oc.pos.Name == u.cfg.pos.Name && (oc.pos.Name == "dense" || oc.pos.Name == "paginated"), "same-kind-fast-path")
	case "copy":
		old := u.s
		u.s = old.Copy()
		// the original is then mutated and cleared: the copy must not notice
		_ = old.Add(u.safeV)
		_ = old.Add(-u.safeV)
		_ = old.Add(0)
		if !old.IsEmpty() {
			_ = old.Reweight(2)
		}
		old.Clear()
		_ = old.AddWithCount(u.safeV, 3)
	case "clear":
		u.s.Clear()
		u.k.clear()
		u.inex = 0
		u.lossy = false
	case "vanish":
		// every weight is scaled down until it underflows to exactly 0: from then on the sketch holds nothing a float
		// can represent and must behave as an empty one - the exact statistics included, whose count is then 0: they
		// must not report, after later additions, extremes or a sum that come from what is gone
		for i := 0; i < 3; i++ {
			if err := u.s.Reweight(0x1p-600); err != nil {
				return fmt.Sprintf("Reweight(2^-600) refused: %v", err)
			}
		}
		u.k.clear()
		u.inex = 0
		u.lossy = false
		u.cl.label("weights-underflowed-to-zero")
	case "reweight":
		if err := u.s.Reweight(op.Factor.F); err != nil {
			return fmt.Sprintf("Reweight(%v) refused: %v", op.Factor.F, err)
		}
		u.k.scale(op.Factor.F)
		u.bud.P += op.Factor.Shift
		u.inex++
	case "encdec":
		before := u.fullObs(u.s, u.k, u.cfg)
		b := append([]byte(nil), op.Prefix...)
		u.s.Encode(&b, op.Omit)
		if !bytes.Equal(b[:len(op.Prefix)], op.Prefix) {
			return "Encode modified the existing prefix of the buffer"
		}
		if d := obs.DiffSketch(u.fullObs(u.s, u.k, u.cfg), before, u.diffOpts()); d != "" && !u.nonDyadic {
			return "Encode changed the sketch: " + d
		}
		ns, err := decodeSketch(u.cfg, b[len(op.Prefix):], op.Omit)
		if err != nil {
			return fmt.Sprintf("decoding the sketch's own encoding (omit=%v) failed: %v", op.Omit, err)
		}
		u.s = ns
		u.k.refold(u.cfg)
		u.inex++
	default:
		panic("kop " + op.Kind)
	}
	u.kinds[op.Kind] = true
	return ""
}

// invariant: deterministic observables against the model, plus the exact statistics of the exact variant.
func (u *skUT) invariant() string {
	if d := checkAgainstModel(u.s, u.cfg, u.k, u.bud); d != "" {
		return d
	}
	if u.cfg.exact {
		return u.checkExactStats()
	}
	return ""
}

func (u *skUT) checkExactStats() string {
	count, min, max, sum, sumAbs := u.k.stats()
	_, _ = min, max // compared bitwise by checkAgainstModel
	if !obs.FEq(u.s.GetCount(), count) {
		return fmt.Sprintf("exact count: got %v want %v", u.s.GetCount(), count)
	}
	if !(sumAbs < 1e300) {
		// partial sums may overflow: the property's "few ulps of the total of |value*weight|" is void there
		u.cl.label("sum-overflow-skipped")
		return ""
	}
	// relative part plus an absolute floor of as many subnormal ulps (products v*w that underflow are rounded to a
	// multiple of 2^-1074), amplified by every later scale-up of a unit change (a running sum in the subnormal
	// range has lost relative precision before it is multiplied)
	amp := math.Max(u.k.amp, 1)
	tol := float64(8+2*u.inex)*0x1p-52*sumAbs + float64(8+2*u.inex+len(u.k.vals))*math.SmallestNonzeroFloat64*amp
	if got := u.s.GetSum(); !(math.Abs(got-sum) <= tol) {
		return fmt.Sprintf("exact sum: got %v want %v (error %v, allowed %v = (8+2*%d) ulps of sum|v*w|=%v)", got, sum, got-sum, tol, u.inex, sumAbs)
	}
	return ""
}

func (g *kopGen) drawOp(t *rapid.T, u *skUT) kop {
	total := u.k.total()
	kind := rapid.SampledFrom(g.kinds).Draw(t, "op")
	switch kind {
	case "add":
		return g.drawAdd(t, total)
	case "burst":
		return g.drawBurst(t, total)
	case "spread":
		return g.drawSpread(t, total)
	case "tworuns":
		return g.drawTwoRuns(t, total)
	case "deczeros":
		// a well-formed stream (documented grammar) whose bins all have count 0, plus possibly a zero-count block of 0:
		// decoding it must change nothing, whatever memory the stores allocate while reading it
		var w refdec.Builder
		nb := rapid.IntRange(1, 3).Draw(t, "zblocks")
		for i := 0; i < nb; i++ {
			neg := rapid.Bool().Draw(t, "zneg")
			first := int64(rapid.IntRange(g.dom.lo, g.dom.hi).Draw(t, "zfirst"))
			n := rapid.IntRange(1, 40).Draw(t, "zn")
			if int(first)+n > g.dom.maxIdx {
				n = 1
			}
			switch rapid.IntRange(0, 2).Draw(t, "zlayout") {
			case 0:
				w.Contiguous(neg, first, 1, make([]float64, n))
			case 1:
				bins := make([]refdec.BinAdd, n)
				for j := range bins {
					bins[j] = refdec.BinAdd{Index: first + int64(j), Count: 0}
				}
				w.DeltasCounts(neg, bins)
			default:
				w.Zero(0)
			}
		}
		return kop{Kind: "deczeros", Stream: w.B}
	case "bad":
		return g.drawBad(t)
	case "badmerge":
		return kop{Kind: "badmerge", Omit: rapid.Bool().Draw(t, "otherkind")}
	case "merge", "decmerge":
		exact := u.cfg.exact
		if kind == "decmerge" && !exact && rapid.IntRange(0, 3).Draw(t, "argexact") == 0 {
			exact = true // a plain sketch decodes the encoding of a sketch with exact statistics and ignores them
			u.cl.label("plain-decodes-exact-encoding")
		}
		op := kop{Kind: kind, Other: g.drawSub(t, u.cfg, exact, total)}
		if kind == "decmerge" {
			op.Omit = rapid.Bool().Draw(t, "omit")
		}
		return op
	case "reweight":
		f := gen.ReweightFactor().Draw(t, "factor")
		if f.F != 1 && !u.bud.FitsAfterFactor(total, f.F, f.Shift) {
			f = gen.Factor{F: 1, Grow: 1}
		}
		return kop{Kind: "reweight", Factor: f}
	case "encdec":
		return kop{Kind: "encdec", Omit: rapid.Bool().Draw(t, "omit"), Prefix: rapid.SliceOfN(rapid.Byte(), 0, 6).Draw(t, "prefix")}
	default:
		return kop{Kind: kind}
	}
}
