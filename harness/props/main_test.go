package props

import (
	"fmt"
	"hash"
	"hash/fnv"
	"os"
	"strings"
	"testing"

	"verifharness/stats"
)

func TestMain(m *testing.M) {
	code := m.Run()
	stats.Flush()
	os.Exit(code)
}

// caseLog accumulates the canonical description of a generated case, its
// labels and counters. It is recorded only when the case completes.
type caseLog struct {
	prop   string
	sb     strings.Builder
	h      hash.Hash64
	labels map[string]bool
	hint   []int // indexes a generator wants probed (C03: indexes around an engineered coincidence)
}

func newCase(prop string) *caseLog {
	return &caseLog{prop: prop, labels: map[string]bool{}, h: fnv.New64a()}
}

// logf appends a line to the canonical case description: all of it is hashed, the first few KB are kept as text.
func (c *caseLog) logf(format string, a ...any) {
	line := fmt.Sprintf(format, a...)
	c.h.Write([]byte(line))
	c.h.Write([]byte{'\n'})
	if c.sb.Len() < 4000 {
		c.sb.WriteString(line)
		c.sb.WriteByte('\n')
	}
}
func (c *caseLog) label(l string) { c.labels[l] = true }
func (c *caseLog) labelIf(b bool, l string) {
	if b {
		c.labels[l] = true
	}
}
func (c *caseLog) has(l string) bool { return c.labels[l] }
func (c *caseLog) done(nontrivial bool) {
	ls := make([]string, 0, len(c.labels))
	for l := range c.labels {
		ls = append(ls, l)
	}
	stats.RecordHashed(c.prop, c.sb.String(), c.h.Sum64(), ls, nontrivial)
}
