package props

import (
	"fmt"
	"math"
	"math/big"
	"sort"
	"testing"

	"github.com/DataDog/sketches-go/ddsketch/mapping"
	"github.com/DataDog/sketches-go/ddsketch/store"
	"pgregory.net/rapid"
	"verifharness/gen"
	"verifharness/model"
	"verifharness/obs"
	"verifharness/stats"
)

func init() {
	stats.Rule("C17", "rapid cases: a source sketch (plain or exact variant; dense/sparse/paginated stores as source and as the supplied empty target stores) holding values of both signs and zeros with magnitudes in [1e-4,1e4] (single-bin, two-far-bins and many-bin shapes; unit and dyadic weights), converted with ChangeMapping to m2 for ordered pairs (m1,m2) over 3x3 mapping kinds with alpha in [1e-3,0.5] - coarser, finer, equal, and bin-aligned pairs (gamma2 = gamma1^k, same offset, scale a power of gamma1) - and scale factors in [1e-3,1e3] (log-uniform, 1, powers of two and of gamma). Oracle: result carries m2 bit for bit; source observation unchanged; zero weight bit-equal; |W'-W| <= 64*2^-52/min(alpha1,alpha2)*W; every target bin weight >= 0 (seen through sparse/paginated iteration and the dense store's protobuf form); every target bin holding more than 1e-9*W overlaps the scaled range of a non-empty source bin of the same sign, and isolated source bins hand over exactly their weight (within the same tolerance); every quantile answer lies in a target bin overlapping the scaled range of a source bin whose cumulative-weight interval is within one unit of q*(W-1); equal mapping and scale 1 give an exact independent copy; exact variant: count equal, min/max = fl(min*s)/fl(max*s), sum within the derived bound. Non-trivial: m2 not Equal to m1 or scale != 1, and >= 2 source bins; distinct by hash of the printed case.")
}

type c17bin struct {
	neg    bool
	zero   bool
	idx    int
	w      float64
	lo, hi float64 // cumulative weight interval in ascending value order
	sLo    float64 // scaled lower bound of the source bin (positive magnitudes)
	sHi    float64
}

func allBins(s store.Store, viaProto bool) []model.Bin {
	var out []model.Bin
	if viaProto {
		pb := s.ToProto()
		for i, c := range pb.ContiguousBinCounts {
			out = append(out, model.Bin{Index: int(pb.ContiguousBinIndexOffset) + i, Count: c})
		}
		for k, c := range pb.BinCounts {
			out = append(out, model.Bin{Index: int(k), Count: c})
		}
	} else {
		s.ForEach(func(i int, c float64) bool { out = append(out, model.Bin{Index: i, Count: c}); return false })
	}
	sort.Slice(out, func(i, j int) bool { return out[i].Index < out[j].Index })
	return out
}

func TestC17(t *testing.T) { rapid.Check(t, func(t *rapid.T) { c17Case(t, false) }) }

// TestC17_ExtremeFanout: a very coarse source mapping (alpha 0.5..0.95) converted to a very fine one so that ONE source
// bin spreads over 2e5..4e6 target bins (dense or paginated target). Few cases, each costly.
func TestC17_ExtremeFanout(t *testing.T) { rapid.Check(t, func(t *rapid.T) { c17Case(t, true) }) }

func c17Case(t *rapid.T, extreme bool) {
	{
		cl := newCase("C17")
		// ---- mappings
		k1 := rapid.SampledFrom(gen.MapKinds).Draw(t, "kind1")
		a1 := gen.Alpha(1e-3, 0.5).Draw(t, "alpha1")
		if extreme {
			a1 = rapid.Float64Range(0.5, 0.95).Draw(t, "alpha1x")
		}
		s1 := gen.MapSpec{Kind: k1, FromAlpha: true, Alpha: a1, Nominal: a1}
		m1, err := s1.Build()
		if err != nil {
			t.Fatalf("C17: %v", err)
		}
		g1, o1 := gen.GammaOf(m1)
		var s2 gen.MapSpec
		scale := 1.0
		rel := rapid.SampledFrom([]string{"equal", "finer", "coarser", "aligned", "aligned", "other"}).Draw(t, "relation")
		if extreme {
			rel = "extreme-fanout"
		}
		switch rel {
		case "extreme-fanout":
			// ln(gamma1)/ln(gamma2) = number of target bins per source bin
			fan := gen.LogUniform(2e5, 4e6).Draw(t, "fanout")
			s2 = gen.MapSpec{Kind: rapid.SampledFrom(gen.MapKinds).Draw(t, "kind2"), FromAlpha: true, Alpha: math.Log((1+a1)/(1-a1)) / fan / 2}
			cl.labelIf(fan > 1.1e6, "fanout>2^20")
		case "equal":
			s2 = s1
		case "finer":
			s2 = gen.MapSpec{Kind: rapid.SampledFrom(gen.MapKinds).Draw(t, "kind2"), FromAlpha: true, Alpha: math.Max(1e-3, a1*rapid.Float64Range(0.05, 0.9).Draw(t, "ratio"))}
		case "coarser":
			s2 = gen.MapSpec{Kind: rapid.SampledFrom(gen.MapKinds).Draw(t, "kind2"), FromAlpha: true, Alpha: math.Min(0.5, a1*rapid.Float64Range(1.1, 20).Draw(t, "ratio"))}
		case "aligned":
			k := rapid.SampledFrom([]int{1, 1, 2, 3}).Draw(t, "gammapow")
			s2 = gen.MapSpec{Kind: k1, Gamma: math.Pow(g1, float64(k)), Offset: o1}
			if s2.Gamma > 3 {
				s2.Gamma = g1
			}
			scale = math.Pow(g1, float64(rapid.IntRange(-3, 3).Draw(t, "scalepow")))
		default:
			s2 = gen.MapSpec{Kind: rapid.SampledFrom(gen.MapKinds).Draw(t, "kind2"), FromAlpha: true, Alpha: gen.Alpha(1e-3, 0.5).Draw(t, "alpha2")}
		}
		m2, err := s2.Build()
		if err != nil {
			t.Fatalf("C17: %v", err)
		}
		// mappings as decoders rebuild them: same base, an arbitrary (possibly very large) index offset; the index of a
		// value is then only known to within ulp(offset) bins, in either direction
		bigOffsets := []float64{1e6, -1e6 - 0.25, 1e9, -1e9, 1.5e9, 1<<30 + 0.5, -1.5e9}
		if rel != "aligned" && rel != "equal" && !extreme {
			if rapid.IntRange(0, 3).Draw(t, "srcoffset") == 0 {
				s1 = gen.MapSpec{Kind: k1, Gamma: g1, Offset: rapid.SampledFrom(bigOffsets).Draw(t, "o1"), Nominal: a1}
				if mm, err := s1.Build(); err == nil && mm.MinIndexableValue() < 1e-6 && mm.MaxIndexableValue() > 1e6 {
					m1 = mm
					cl.label("source-offset:large")
				} else {
					s1 = gen.MapSpec{Kind: k1, FromAlpha: true, Alpha: a1, Nominal: a1}
				}
				g1, o1 = gen.GammaOf(m1)
			}
			if rapid.IntRange(0, 2).Draw(t, "tgtoffset") == 0 {
				g2, _ := gen.GammaOf(m2)
				sp := gen.MapSpec{Kind: gen.KindOf(m2), Gamma: g2, Offset: rapid.SampledFrom(bigOffsets).Draw(t, "o2")}
				if mm, err := sp.Build(); err == nil && mm.MinIndexableValue() < 1e-9 && mm.MaxIndexableValue() > 1e9 {
					s2, m2 = sp, mm
					cl.label("target-offset:large")
				}
			}
		}
		if rel != "aligned" {
			switch rapid.IntRange(0, 4).Draw(t, "scaleclass") {
			case 0:
				scale = 1
			case 1:
				scale = math.Ldexp(1, rapid.IntRange(-9, 9).Draw(t, "scale2pow"))
			case 2:
				scale = math.Pow(g1, float64(rapid.IntRange(-5, 5).Draw(t, "scalegpow")))
			default:
				scale = gen.LogUniform(1e-3, 1e3).Draw(t, "scale")
			}
		}
		a2 := m2.RelativeAccuracy()
		exact := rapid.Bool().Draw(t, "exact")
		srcKind := gen.NonCollapsingKind().Draw(t, "srckind")
		tgtKind := gen.NonCollapsingKind().Draw(t, "tgtkind")
		if extreme {
			tgtKind = gen.StoreKind{Name: rapid.SampledFrom([]string{"dense", "paginated"}).Draw(t, "tgtkindx")}
		}
		sc := skCfg{spec: s1, m: m1, pos: srcKind, neg: srcKind, exact: exact}
		cl.logf("C17 %s -> %s (%s) scale=%v target=%s", sc, s2, rel, scale, tgtKind)
		cl.label("relation:" + rel)
		cl.label("pair:" + k1 + "->" + s2.Kind)
		cl.label("source:" + srcKind.Name)
		cl.label("target:" + tgtKind.Name)
		cl.labelIf(exact, "variant:exact")
		cl.labelIf(scale == 1, "scale:1")
		cl.labelIf(scale != 1, "scale:other")

		// ---- source
		bud := model.NewBudget(gen.Quantum)
		src := sc.new()
		k := newSkModel(m1)
		shape := rapid.SampledFrom([]string{"single-bin", "two-far-bins", "many", "many", "many"}).Draw(t, "shape")
		unit := rapid.Bool().Draw(t, "unitweights")
		n := rapid.IntRange(1, 60).Draw(t, "n")
		var pool []float64
		if extreme {
			// one or two source bins close to each other (memory of a dense target)
			v1 := gen.LogUniform(1e-2, 1e2).Draw(t, "v")
			pool = []float64{v1}
			if rapid.Bool().Draw(t, "secondbin") {
				pool = append(pool, v1*rapid.Float64Range(1, 30).Draw(t, "v2f"))
			}
			shape = "extreme"
			n = rapid.IntRange(1, 5).Draw(t, "nx")
		}
		switch shape {
		case "single-bin":
			pool = []float64{gen.LogUniform(1e-4, 1e4).Draw(t, "v")}
		case "two-far-bins":
			pool = []float64{gen.LogUniform(1e-4, 1).Draw(t, "v1"), gen.LogUniform(10, 1e4).Draw(t, "v2")}
		}
		prof := drawProfile(t)
		total := 0.0
		// magnitudes: values drawn in [1e-4,1e4] are moved, all together, to the bottom or the top of the float range
		// (still at least three decades inside both mappings' ranges before and after scaling); at the bottom the heaviest weights are over-represented (weight / bin width is then at its largest)
		mag := 1.0
		if !extreme && rapid.IntRange(0, 4).Draw(t, "magclass") == 0 {
			mag = rapid.SampledFrom([]float64{1e-296, 1e-296, 1e-290, 1e-270, 1e-200, 1e200, 1e270, 1e285}).Draw(t, "mag")
			lo := math.Max(m1.MinIndexableValue(), m2.MinIndexableValue()) * 1e3
			hi := math.Min(m1.MaxIndexableValue(), m2.MaxIndexableValue()) / 1e3
			for _, f := range []float64{1, scale} {
				if 1e-4*mag*f < lo || 1e4*mag*f > hi {
					mag = 1
				}
			}
			cl.labelIf(mag != 1, "magnitude:extreme")
		}
		for i := 0; i < n; i++ {
			var v float64
			if pool != nil {
				v = pool[rapid.IntRange(0, len(pool)-1).Draw(t, "pool")]
			} else {
				v = gen.LogUniform(1e-4, 1e4).Draw(t, "v")
				if rapid.IntRange(0, 3).Draw(t, "near") == 0 && i > 0 {
					v = math.Abs(k.vals[len(k.vals)-1].V) / mag * rapid.Float64Range(0.9, 1.1).Draw(t, "nearf")
					if !(v >= 1e-4 && v <= 1e4) {
						v = 1
					}
				}
			}
			v *= mag
			switch {
			case prof.neg && (!prof.pos || rapid.Bool().Draw(t, "negv")):
				v = -v
			}
			if prof.zero && rapid.IntRange(0, 6).Draw(t, "zerov") == 0 {
				v = 0
			}
			w := 1.0
			if !unit {
				w = gen.Weight(false).Draw(t, "w")
			}
			if mag < 1e-250 && rapid.Bool().Draw(t, "heaviest") {
				w = 1 << 20
			}
			if !bud.Fits(total + w) {
				break
			}
			total += w
			if err := src.AddWithCount(v, w); err != nil {
				t.Fatalf("C17: AddWithCount(%v,%v): %v", v, w, err)
			}
			k.add(v, w)
			cl.logf("(%v,%v)", v, w)
		}
		if len(k.vals) == 0 {
			t.Skip("empty source")
		}
		// a light sketch: every weight scaled down by a power of two (exactly), e.g. what is left after a long decay.
		// Every tolerance below is relative to the total weight: nothing may depend on its absolute magnitude.
		if !extreme && !(exact && mag < 1e-100) && rapid.IntRange(0, 5).Draw(t, "light") == 0 {
			exps := []int{40, 60, 100, 300, 700}
			if exact {
				exps = exps[:3] // (the exact sum must stay clear of the subnormal range, where its own rounding is absolute)
			}
			f := math.Ldexp(1, -rapid.SampledFrom(exps).Draw(t, "lightexp"))
			if err := src.Reweight(f); err != nil {
				t.Fatalf("C17: Reweight(%v): %v", f, err)
			}
			k.scale(f)
			cl.logf("Reweight(%v)", f)
			cl.label("weights:light")
		}
		W := k.total()
		helper := &skUT{bud: bud}
		before := helper.fullObs(src, k, sc)
		// a scale factor that puts the scaled lower bound of the lowest source bin of one side exactly (within rounding)
		// on a bin bound of the target mapping - the other bounds coincide too only if both mappings are logarithmic
		if rel != "aligned" && mag == 1 && !extreme && rapid.IntRange(0, 4).Draw(t, "binratio") == 0 {
			lowest := math.Inf(1)
			for _, x := range k.vals {
				if a := math.Abs(x.V); a > 0 && a < lowest {
					lowest = a
				}
			}
			if !math.IsInf(lowest, 1) {
				i0 := m1.Index(lowest)
				j := m2.Index(m1.LowerBound(i0)) + rapid.IntRange(-40, 40).Draw(t, "binratioshift")
				if f := m2.LowerBound(j) / m1.LowerBound(i0); f >= 1e-3 && f <= 1e3 {
					scale = f
					cl.logf("scale := %v (bound of target bin %d over bound of source bin %d)", scale, j, i0)
					cl.label("scale:bound-ratio")
				}
			}
		}

		// ---- conversion
		res := src.ChangeMapping(m2, tgtKind.Provider(), scale)
		if dd := obs.DiffSketch(helper.fullObs(src, k, sc), before, obs.DiffOpts{IgnoreSum: !exact && srcKind.Name == "sparse"}); dd != "" {
			t.Fatalf("C17: ChangeMapping changed its source: %s", dd)
		}
		rm := res.Mapping()
		if !rm.Equals(m2) || !m2.Equals(rm) {
			t.Fatalf("C17: the result does not carry the requested mapping")
		}
		pa, pb := rm.ToProto(), m2.ToProto()
		if !obs.FEq(pa.Gamma, pb.Gamma) || !obs.FEq(pa.IndexOffset, pb.IndexOffset) || pa.Interpolation != pb.Interpolation {
			t.Fatalf("C17: result mapping (%v,%v,%v) is not the requested one (%v,%v,%v)", pa.Gamma, pa.IndexOffset, pa.Interpolation, pb.Gamma, pb.IndexOffset, pb.Interpolation)
		}
		identity := scale == 1 && m1.Equals(m2)
		if identity {
			// exact, independent copy
			if dd := obs.DiffSketch(helper.fullObs(res, k, sc), before, obs.DiffOpts{IgnoreSum: !exact && srcKind.Name == "sparse"}); dd != "" {
				t.Fatalf("C17: with an equal mapping and scale 1 the result is not an exact copy: %s", dd)
			}
			_ = res.AddWithCount(1, 2)
			_ = res.AddWithCount(-1, 2)
			res.Clear()
			if dd := obs.DiffSketch(helper.fullObs(src, k, sc), before, obs.DiffOpts{IgnoreSum: !exact && srcKind.Name == "sparse"}); dd != "" {
				t.Fatalf("C17: mutating the identity result changed the source: %s", dd)
			}
			cl.label("identity")
			cl.done(false)
			return
		}
		// zero weight exactly, total up to rounding
		if !obs.FEq(res.GetZeroCount(), k.zero) {
			t.Fatalf("C17: zero weight %v, source %v", res.GetZeroCount(), k.zero)
		}
		tolW := 64 * 0x1p-52 / math.Min(a1, a2) * W
		inner := res.Inner()
		var tot float64
		for side, st := range []store.Store{inner.GetPositiveValueStore(), inner.GetNegativeValueStore()} {
			for _, b := range allBins(st, tgtKind.Name == "dense") {
				if !(b.Count >= 0) {
					t.Fatalf("C17 %s->%s scale=%v: target bin %d on side %d has weight %v", s1, s2, scale, b.Index, side, b.Count)
				}
				tot += b.Count
			}
		}
		tot += k.zero
		if math.Abs(tot-W) > tolW {
			t.Fatalf("C17 %s->%s scale=%v: total weight %v after conversion, %v before (difference %v > %v)", s1, s2, scale, tot, W, tot-W, tolW)
		}
		// ---- locality and per-bin conservation
		type srcBin struct {
			idx      int
			w        float64
			lo, hi   float64
			received float64
			isolated bool
		}
		sideBins := func(mm model.Map) []*srcBin {
			var out []*srcBin
			for _, b := range mm.Sorted() {
				out = append(out, &srcBin{idx: b.Index, w: b.Count, lo: m1.LowerBound(b.Index) * scale, hi: m1.LowerBound(b.Index+1) * scale})
			}
			for i, b := range out {
				b.isolated = (i == 0 || out[i-1].hi < b.lo/(1+4*a2)/(1+4*a2)) && (i == len(out)-1 || out[i+1].lo > b.hi*(1+4*a2)*(1+4*a2))
			}
			return out
		}
		srcSides := [][]*srcBin{sideBins(k.pos), sideBins(k.neg)}
		for side, st := range []store.Store{inner.GetPositiveValueStore(), inner.GetNegativeValueStore()} {
			for _, b := range allBins(st, false) {
				tl, th := m2.LowerBound(b.Index), m2.LowerBound(b.Index+1)
				overl := false
				for _, sb := range srcSides[side] {
					if tl <= sb.hi*(1+1e-12) && th >= sb.lo*(1-1e-12) {
						overl = true
						sb.received += b.Count
					}
				}
				if !overl && b.Count > 1e-9*W {
					t.Fatalf("C17 %s->%s scale=%v: target bin %d [%v,%v) on side %d holds %v but overlaps no scaled source bin", s1, s2, scale, b.Index, tl, th, side, b.Count)
				}
			}
			for _, sb := range srcSides[side] {
				if sb.isolated && math.Abs(sb.received-sb.w) > tolW+1e-9*W {
					t.Fatalf("C17 %s->%s scale=%v: isolated source bin %d (weight %v, scaled range [%v,%v)) handed %v to the target bins it overlaps", s1, s2, scale, sb.idx, sb.w, sb.lo, sb.hi, sb.received)
				}
			}
		}
		// ---- quantiles: answer's bin overlaps the scaled bin of a source bin at a rank at most one unit away
		var asc []c17bin
		negs := k.neg.Sorted()
		for i := len(negs) - 1; i >= 0; i-- {
			asc = append(asc, c17bin{neg: true, idx: negs[i].Index, w: negs[i].Count})
		}
		if k.zero > 0 {
			asc = append(asc, c17bin{zero: true, w: k.zero})
		}
		for _, b := range k.pos.Sorted() {
			asc = append(asc, c17bin{idx: b.Index, w: b.Count})
		}
		cum := 0.0
		for i := range asc {
			asc[i].lo, asc[i].hi = cum, cum+asc[i].w
			cum += asc[i].w
			if !asc[i].zero {
				asc[i].sLo, asc[i].sHi = m1.LowerBound(asc[i].idx)*scale, m1.LowerBound(asc[i].idx+1)*scale
			}
		}
		wm1 := new(big.Rat).SetFloat64(W)
		wm1.Sub(wm1, big.NewRat(1, 1))
		qs := append([]float64{}, obs.DefaultQs...)
		for i := 0; i < 5; i++ {
			qs = append(qs, rapid.Float64Range(0, 1).Draw(t, "q"))
		}
		for _, q := range qs {
			y, err := res.GetValueAtQuantile(q)
			if err != nil {
				t.Fatalf("C17: GetValueAtQuantile(%v) on the result: %v", q, err)
			}
			r := new(big.Rat).SetFloat64(q)
			r.Mul(r, wm1)
			rf, _ := r.Float64()
			ok := false
			var yLo, yHi float64
			if y != 0 {
				j := m2.Index(math.Abs(y))
				if exact {
					// the exact variant clamps answers to [min,max]: locate the bin of the clamped value
					j = m2.Index(math.Abs(y))
				}
				yLo, yHi = m2.LowerBound(j), m2.LowerBound(j+1)
			}
			for _, b := range asc {
				dist := 0.0
				if rf < b.lo {
					dist = b.lo - rf
				} else if rf > b.hi {
					dist = rf - b.hi
				}
				if dist > 1+1e-9*W {
					continue
				}
				if b.zero {
					if y == 0 {
						ok = true
					}
					continue
				}
				if y == 0 || (y < 0) != b.neg {
					continue
				}
				// slack: 1e-9, plus what index offsets of large magnitude cost (an offset of 1e9 is only known to 1.2e-7
				// of a bin, so that Index and LowerBound of both mappings may place an edge that far away)
				sl := 1e-9
				for _, mm := range []mapping.IndexMapping{m1, m2} {
					gg, oo := gen.GammaOf(mm)
					sl += 4 * (gen.NextUp(math.Abs(oo), 1) - math.Abs(oo)) * math.Log(gg)
				}
				if yLo <= b.sHi*(1+sl) && yHi >= b.sLo*(1-sl) {
					ok = true
				}
			}
			if !ok {
				t.Fatalf("C17 %s->%s scale=%v: quantile %v (rank %v of %v) answered %v (target bin [%v,%v)), which overlaps the scaled range of no source bin within one unit of that rank; source bins (ascending): %+v", s1, s2, scale, q, rf, W, y, yLo, yHi, asc)
			}
		}
		// ---- exact variant: statistics rescaled
		if exact {
			count, mn, mx, _, _ := k.stats()
			if !obs.FEq(res.GetCount(), count) {
				t.Fatalf("C17 exact: count %v after conversion, %v before", res.GetCount(), count)
			}
			gmin, _ := res.GetMinValue()
			gmax, _ := res.GetMaxValue()
			if !(gmin == mn*scale) || !(gmax == mx*scale) {
				t.Fatalf("C17 exact: min/max (%v,%v) after conversion, expected (%v,%v) = scale * (%v,%v)", gmin, gmax, mn*scale, mx*scale, mn, mx)
			}
			k2 := k.copy()
			k2.rescale(scale)
			_, _, _, sum, sumAbs := k2.stats()
			if got := res.GetSum(); math.Abs(got-sum) > 12*0x1p-52*sumAbs {
				t.Fatalf("C17 exact: sum %v after conversion, expected %v", got, sum)
			}
		}
		// ---- independence of source and result, in both directions
		type snapT [5]float64
		snap := func(s obs.SK) snapT {
			mn, _ := s.GetMinValue()
			mx, _ := s.GetMaxValue()
			sum := 0.0
			if s.IsExact() { // the plain sketch's sum iterates a map in random order over non-dyadic weights: not comparable
				sum = s.GetSum()
			}
			return snapT{s.GetCount(), sum, mn, mx, s.GetZeroCount()}
		}
		near := func(a, b snapT) bool {
			for i := range a {
				if !(a[i] == b[i]) && !(math.Abs(a[i]-b[i]) <= 1e-9*math.Abs(b[i])) {
					return false
				}
			}
			return true
		}
		res2 := src.ChangeMapping(m2, tgtKind.Provider(), scale)
		r2snap := snap(res2)
		_ = res.AddWithCount(scale, 3)
		_ = res.Add(-scale)
		res.Clear()
		if dd := obs.DiffSketch(helper.fullObs(src, k, sc), before, obs.DiffOpts{IgnoreSum: !exact && srcKind.Name == "sparse"}); dd != "" {
			t.Fatalf("C17 %s->%s scale=%v: operating on the result changed the source: %s", s1, s2, scale, dd)
		}
		_ = src.AddWithCount(1, 3)
		_ = src.Add(-1)
		src.Clear()
		if got := snap(res2); !near(got, r2snap) {
			t.Fatalf("C17 %s->%s scale=%v: operating on the source changed the result: (count,sum,min,max,zero) %v -> %v", s1, s2, scale, r2snap, got)
		}
		stats.Count("C17", "quantile_queries", int64(len(qs)))
		cl.labelIf(len(k.neg) > 0, "negative-side")
		cl.label("shape:" + shape)
		cl.done(extreme || len(k.pos)+len(k.neg) >= 2)
	}
}

var _ mapping.IndexMapping
var _ = fmt.Sprintf
