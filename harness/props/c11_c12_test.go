package props

import (
	"fmt"
	"math"
	"math/big"
	"sort"
	"testing"

	"github.com/DataDog/sketches-go/ddsketch"

	"pgregory.net/rapid"
	"verifharness/gen"
	"verifharness/model"
	"verifharness/obs"
	"verifharness/stats"
)

func init() {
	stats.Rule("C11", "rapid cases: multisets of (value, weight) with dyadic weights in (0, 2^20], total weight W from 2^-10 up with W < 1 in ~40% of cases (a single light entry, several light entries, or a unit-weight sketch reweighted by 2^-k), one-sided and mixed data, all non-collapsing store kinds and the three mapping kinds, q = 0, 1, a dense grid and random. Oracle: entries sorted by value with cumulative-weight intervals [c_{j-1}, c_j]; with r = q*(W-1) computed exactly, the answer must be within alpha(+slack) of some absorbed value v_j whose interval is within one unit of weight of r (0 answered as 0); in addition min <= answer <= max and the answer never has the sign of an empty side. Non-trivial: W is not an integer or some weight differs from 1; distinct by hash of the printed case.")
	stats.Rule("C12", "rapid cases: sketches built by a generated history (adds, weighted adds, merges incl. through decoding, copies, clears, encode/decode round-trips) over all five store kinds and three mappings, with the data-set shape forced by the generator (all-positive, all-negative, all-zero, zero+negative, zero+positive, single value, only sub-minimum magnitudes, mixed). Oracle: exact model (value/weight list + per-side index maps, folded for collapsing stores): count/zero count/emptiness exact; min/max == representative of the extreme model bin (0 for the zero bucket) and, non-collapsing, within alpha of the true extreme; sorted probe quantiles non-decreasing and inside [min,max]; batch == singles; a batch containing an invalid q fails; same-signed non-collapsing data: |GetSum - sum v*w| <= alpha*|sum v*w|; ForEach yields exactly the model's (value, weight) set with positive weights summing to the count and stops after exactly k callbacks for every k. Non-trivial: >= 2 bins; distinct by hash of the printed case.")
}

// ---------------------------------------------------------------- C11

type wEntry struct {
	v, w float64
}

func TestC11(t *testing.T) {
	rapid.Check(t, func(t *rapid.T) {
		cl := newCase("C11")
		c := drawCfg(t, cfgOpt{alphaLo: 1e-5, alphaHi: 0.5})
		d := drawDomain(t, c.m, windowFor(c))
		prof := drawProfile(t)
		bud := model.NewBudget(gen.Quantum)
		s := c.new()
		var entries []wEntry
		mode := rapid.SampledFrom([]string{"single-light", "several-light", "reweighted-down", "reweighted-then-more", "reweighted-large-buffer", "heavy", "heavy", "mixed"}).Draw(t, "mode")
		cl.logf("C11 %s mode=%s", c, mode)
		cl.label("mode:" + mode)
		cl.label("mapping:" + c.spec.Kind)
		cl.label("pos:" + c.pos.Name)
		// now and then the sketch had a former life (weighted values, then Clear) and a copy taken right after the Clear
		// lives on beside it, receiving the same additions: whatever memory the two still share shows in the answers
		var shadow *obs.SK
		if rapid.IntRange(0, 4).Draw(t, "formerlife") == 0 {
			for i, n := 0, rapid.IntRange(1, 4).Draw(t, "formern"); i < n; i++ {
				v, _, _ := d.value(t, prof)
				_ = s.AddWithCount(v, 2.5)
			}
			s.Clear()
			cp := s.Copy()
			shadow = &cp
			cl.label("recycled-with-living-copy")
		}
		add := func(v, w float64) {
			cl.logf("AddWithCount(%v,%v)", v, w)
			if err := s.AddWithCount(v, w); err != nil {
				t.Fatalf("C11: AddWithCount(%v,%v) refused: %v", v, w, err)
			}
			if shadow != nil {
				_ = shadow.AddWithCount(v, w)
			}
			entries = append(entries, wEntry{v, w})
		}
		total := 0.0
		switch mode {
		case "single-light":
			v, _, _ := d.value(t, prof)
			add(v, float64(rapid.IntRange(1, 1023).Draw(t, "w1024"))/1024)
		case "several-light":
			n := rapid.IntRange(2, 8).Draw(t, "n")
			for i := 0; i < n; i++ {
				v, _, _ := d.value(t, prof)
				add(v, float64(rapid.IntRange(1, 200).Draw(t, "w1024"))/1024)
			}
		case "reweighted-down":
			n := rapid.IntRange(1, 30).Draw(t, "n")
			for i := 0; i < n; i++ {
				v, _, _ := d.value(t, prof)
				add(v, 1)
			}
			k := rapid.IntRange(1, 8).Draw(t, "shift")
			f := math.Ldexp(1, -k)
			cl.logf("Reweight(%v)", f)
			if err := s.Reweight(f); err != nil {
				t.Fatalf("C11: Reweight(%v): %v", f, err)
			}
			for i := range entries {
				entries[i].w *= f
			}
			bud.P += k
			cl.label("reached-by-reweight")
		case "reweighted-large-buffer":
			// some weighted entries, then many unit adds (a run concentrated on one page, possibly after a thinly spread
			// run), then a reweight: in the paginated store the unit entries are all still buffered at that moment
			for i := 0; i < rapid.IntRange(1, 4).Draw(t, "nweighted"); i++ {
				v, _, _ := d.value(t, prof)
				w := gen.LightWeight().Draw(t, "w")
				total += w
				add(v, w)
			}
			centre := d.lo + (d.hi-d.lo)/2
			sign := 1.0
			if prof.neg && (!prof.pos || rapid.Bool().Draw(t, "lbneg")) {
				sign = -1
			}
			unitAt := func(i int) {
				if i <= d.minIdx {
					i = d.minIdx + 1
				}
				if i >= d.maxIdx {
					i = d.maxIdx - 1
				}
				total++
				add(sign*d.clamp(c.m.Value(i)), 1)
			}
			if rapid.Bool().Draw(t, "thinfirst") {
				for k := 0; k < rapid.IntRange(65, 80).Draw(t, "nthin"); k++ {
					unitAt(centre + 64 + 33*k)
				}
			}
			nd := rapid.IntRange(32, 64).Draw(t, "ndense")
			start := centre - centre%32 - 64
			for k := 0; k < nd; k++ {
				unitAt(start + rapid.IntRange(0, 31).Draw(t, "line"))
			}
			k := rapid.IntRange(1, 8).Draw(t, "shift")
			f := math.Ldexp(1, -k)
			if rapid.Bool().Draw(t, "up") {
				f = float64(rapid.SampledFrom([]int{2, 3, 4}).Draw(t, "upf"))
				k = 0
			}
			cl.logf("Reweight(%v)", f)
			if err := s.Reweight(f); err != nil {
				t.Fatalf("C11: Reweight(%v): %v", f, err)
			}
			for i := range entries {
				entries[i].w *= f
			}
			bud.P += k
			cl.label("reached-by-reweight")
		case "reweighted-then-more":
			// weighted adds, a reweight by any dyadic factor, then more weighted adds (so that reweighted bins end up
			// in the interior of the rank order)
			n := rapid.IntRange(1, 20).Draw(t, "n")
			for i := 0; i < n; i++ {
				v, _, _ := d.value(t, prof)
				w := gen.LightWeight().Draw(t, "w")
				total += w
				add(v, w)
			}
			f := gen.ReweightFactor().Draw(t, "factor")
			if !bud.FitsAfterFactor(total+64, f.F, f.Shift) {
				f = gen.Factor{F: 0.5, Shift: 1}
			}
			cl.logf("Reweight(%v)", f.F)
			if err := s.Reweight(f.F); err != nil {
				t.Fatalf("C11: Reweight(%v): %v", f.F, err)
			}
			for i := range entries {
				entries[i].w *= f.F
			}
			total *= f.F
			bud.P += f.Shift
			m2 := rapid.IntRange(1, 10).Draw(t, "more")
			for i := 0; i < m2; i++ {
				v, _, _ := d.value(t, prof)
				w := gen.LightWeight().Draw(t, "w")
				if !bud.Fits(total + w) {
					break
				}
				total += w
				add(v, w)
			}
			cl.label("reached-by-reweight")
		default:
			n := rapid.IntRange(1, 60).Draw(t, "n")
			for i := 0; i < n; i++ {
				v, _, _ := d.value(t, prof)
				w := gen.Weight(false).Draw(t, "w")
				if mode == "mixed" && rapid.Bool().Draw(t, "light") {
					w = gen.LightWeight().Draw(t, "lw")
				}
				if !bud.Fits(total + w) {
					break
				}
				total += w
				add(v, w)
			}
		}
		if len(entries) == 0 {
			t.Skip("no entry fits the budget")
		}
		// model: entries sorted by effective value, cumulative intervals
		type iv struct{ v, lo, hi float64 }
		es := make([]wEntry, len(entries))
		for i, e := range entries {
			es[i] = wEntry{effective(c.m, e.v), e.w}
		}
		sort.SliceStable(es, func(i, j int) bool { return es[i].v < es[j].v })
		W := 0.0
		ivs := make([]iv, len(es))
		fractional := false
		for i, e := range es {
			ivs[i] = iv{e.v, W, W + e.w}
			W += e.w
			if e.w != 1 {
				fractional = true
			}
		}
		cl.labelIf(W < 1, "W<1")
		cl.labelIf(fractional, "fractional-weights")
		cl.labelIf(es[0].v >= 0 || es[len(es)-1].v <= 0, "one-sided")
		if got := s.GetCount(); !obs.FEq(got, W) {
			t.Fatalf("C11 %s: GetCount = %v, absorbed weight %v", c, got, W)
		}
		qs := []float64{0, 1, 0.5, 1e-9, 1 - 1e-9}
		for i := 0; i <= 16; i++ {
			qs = append(qs, float64(i)/16)
		}
		for i := 0; i < 6; i++ {
			qs = append(qs, rapid.Float64Range(0, 1).Draw(t, "q"))
		}
		gmin, e1 := s.GetMinValue()
		gmax, e2 := s.GetMaxValue()
		if e1 != nil || e2 != nil {
			t.Fatalf("C11 %s: min/max errors %v %v on a non-empty sketch", c, e1, e2)
		}
		wm1 := new(big.Rat).SetFloat64(W)
		wm1.Sub(wm1, big.NewRat(1, 1))
		alpha := alphaOf(c)
		for _, q := range qs {
			y, err := s.GetValueAtQuantile(q)
			if err != nil {
				t.Fatalf("C11 %s: GetValueAtQuantile(%v) on total weight %v: %v", c, q, W, err)
			}
			r := new(big.Rat).SetFloat64(q)
			r.Mul(r, wm1)
			rf, _ := r.Float64()
			ok := false
			for _, x := range ivs {
				dist := 0.0
				if rf < x.lo {
					dist = x.lo - rf
				} else if rf > x.hi {
					dist = rf - x.hi
				}
				if dist <= 1+0x1p-30 && withinAlpha(c.m, alpha, y, x.v) {
					ok = true
					break
				}
			}
			if !ok {
				t.Fatalf("C11 %s: q=%v (rank %v of total weight %v): answer %v is not within alpha=%v of any absorbed value whose cumulative-weight interval is within one unit of the rank; entries (value, [lo,hi]): %v", c, q, rf, W, y, alpha, ivs)
			}
			if y < gmin || y > gmax {
				t.Fatalf("C11 %s: q=%v answer %v outside reported [min,max]=[%v,%v]", c, q, y, gmin, gmax)
			}
			if y < 0 && es[0].v >= 0 {
				t.Fatalf("C11 %s: q=%v answer %v is negative although nothing negative was absorbed (data in [%v,%v])", c, q, y, es[0].v, es[len(es)-1].v)
			}
			if y > 0 && es[len(es)-1].v <= 0 {
				t.Fatalf("C11 %s: q=%v answer %v is positive although nothing positive was absorbed", c, q, y)
			}
		}
		stats.Count("C11", "quantile_queries", int64(len(qs)))
		cl.logf("W=%v", W)
		cl.done(W != math.Floor(W) || fractional)
	})
}

// ---------------------------------------------------------------- C12

var c12Kinds = []string{"add", "add", "add", "add", "add", "merge", "decmerge", "deczeros", "copy", "clear", "encdec", "vanish"}

func drawShape(t *rapid.T) (string, signProfile) {
	shape := rapid.SampledFrom([]string{"all-positive", "all-negative", "all-zero", "zero+negative", "zero+positive", "single-value", "sub-minimum", "mixed", "mixed"}).Draw(t, "shape")
	switch shape {
	case "all-positive", "single-value":
		return shape, signProfile{pos: true}
	case "all-negative":
		return shape, signProfile{neg: true}
	case "all-zero":
		return shape, signProfile{zero: true}
	case "zero+negative":
		return shape, signProfile{zero: true, neg: true}
	case "zero+positive":
		return shape, signProfile{zero: true, pos: true}
	case "sub-minimum":
		return shape, signProfile{submin: true}
	}
	return shape, signProfile{pos: true, neg: true, zero: true, submin: true}
}

func TestC12(t *testing.T) {
	rapid.Check(t, func(t *rapid.T) {
		cl := newCase("C12")
		c := drawCfg(t, cfgOpt{alphaLo: 1e-5, alphaHi: 0.5, collapsing: true})
		d := drawDomain(t, c.m, windowFor(c))
		shape, prof := drawShape(t)
		bud := model.NewBudget(gen.Quantum)
		u := newSkUT(c, d, bud, cl)
		g := &kopGen{dom: d, prof: prof, bud: bud, kinds: c12Kinds, collapsing: true}
		cl.logf("C12 %s shape=%s", c, shape)
		cl.label("shape:" + shape)
		cl.label("pos:" + c.pos.Name)
		cl.label("mapping:" + c.spec.Kind)
		n := rapid.IntRange(1, 40).Draw(t, "ops")
		if shape == "single-value" {
			n = 1
		}
		var single *kop
		for i := 0; i < n; i++ {
			op := g.drawOp(t, u)
			if shape == "single-value" {
				if single == nil {
					o := g.drawAdd(t, 0)
					if o.W == 0 && o.Kind == "addw" {
						o.W = 1
					}
					single = &o
				}
				op = *single
			}
			cl.logf("%s", op)
			if msg := u.apply(op); msg != "" {
				t.Fatalf("C12 %s after %s: %s", c, op, msg)
			}
			switch op.Kind {
			case "merge", "decmerge":
				cl.label("after-merge")
				// judged at once: what a merge or a decoding leaves behind (an unsorted buffer, say) may be repaired by
				// the very next addition
				if msg := checkCoherence(t, u, cl); msg != "" {
					t.Fatalf("C12 %s right after %s: %s", c, op, msg)
				}
			case "clear":
				cl.label("after-clear")
			case "encdec":
				cl.label("after-decode")
			}
		}
		if msg := checkCoherence(t, u, cl); msg != "" {
			t.Fatalf("C12 %s: %s", c, msg)
		}
		// a copy reweighted by 2^-1074 (some weights vanish, others become a few subnormal units): exact contents are not
		// representable there, but iteration must still yield positive weights only, and no value twice; what vanished
		// is gone for every query alike: emptiness, the extremes and the extreme quantiles speak of the bins that
		// iteration still yields (plain variant; the exact statistics legitimately remember the extremes)
		if rapid.IntRange(0, 2).Draw(t, "underflowprobe") == 0 {
			cp := u.s.Copy()
			if err := cp.Reweight(0x1p-1074); err != nil {
				t.Fatalf("C12 %s: Reweight(2^-1074) refused: %v", c, err)
			}
			seen := map[float64]bool{}
			cp.ForEach(func(v, w float64) bool {
				if !(w > 0) {
					t.Fatalf("C12 %s: after Reweight(2^-1074) iteration yields (%v, %v)", c, v, w)
				}
				if seen[v] {
					t.Fatalf("C12 %s: after Reweight(2^-1074) iteration yields the value %v twice", c, v)
				}
				seen[v] = true
				return false
			})
			if cp.IsEmpty() != (len(seen) == 0) {
				t.Fatalf("C12 %s: after Reweight(2^-1074) IsEmpty()=%v but iteration yields %d bins (count %v)", c, cp.IsEmpty(), len(seen), cp.GetCount())
			}
			if !c.exact && len(seen) > 0 {
				lo, hi := math.Inf(1), math.Inf(-1)
				for v := range seen {
					lo, hi = math.Min(lo, v), math.Max(hi, v)
				}
				mn, e1 := cp.GetMinValue()
				mx, e2 := cp.GetMaxValue()
				if e1 != nil || e2 != nil || mn != lo || mx != hi {
					t.Fatalf("C12 %s: after Reweight(2^-1074) the bins that still hold weight span [%v,%v] but min/max are (%v,%v) (%v,%v)", c, lo, hi, mn, mx, e1, e2)
				}
				for _, q := range []float64{0, 0.5, 1} {
					if y, err := cp.GetValueAtQuantile(q); err != nil || !seen[y] {
						t.Fatalf("C12 %s: after Reweight(2^-1074) quantile %v is (%v, %v), not the value of a bin that still holds weight (%d bins in [%v,%v])", c, q, y, err, len(seen), lo, hi)
					}
				}
				cl.labelIf(len(seen) < bins0(u), "partial-underflow-lost-bins")
			}
			cl.label("partial-underflow-probe")
		}
		bins := len(u.k.expectPos(c)) + len(u.k.expectNeg(c))
		if u.k.zero > 0 {
			bins++
		}
		cl.done(bins >= 2)
	})
}

// bins0 is the number of bins (zero bucket included) of the sketch according to its model.
func bins0(u *skUT) int {
	n := len(u.k.expectPos(u.cfg)) + len(u.k.expectNeg(u.cfg))
	if u.k.zero > 0 {
		n++
	}
	return n
}

// checkCoherence applies the C12 oracle to a sketch with an exact model.
func checkCoherence(t *rapid.T, u *skUT, cl *caseLog) string {
	c, s, k := u.cfg, u.s, u.k
	if msg := checkAgainstModel(s, c, k, u.bud); msg != "" { // count, zero count, emptiness, min/max == extreme bin, ForEach set
		return msg
	}
	total := k.total()
	if total == 0 {
		if _, err := s.GetValueAtQuantile(0.5); err == nil {
			return "GetValueAtQuantile on an empty sketch returned no error"
		}
		if _, err := s.GetValuesAtQuantiles([]float64{0.5}); err == nil {
			return "GetValuesAtQuantiles on an empty sketch returned no error"
		}
		cl.label("empty-at-end")
		return ""
	}
	gmin, _ := s.GetMinValue()
	gmax, _ := s.GetMaxValue()
	alpha := alphaOf(c)
	// true extremes (non-collapsing): within alpha
	if !c.anyCollapsing() && !u.lossy && len(k.vals) > 0 {
		tmin, tmax := math.Inf(1), math.Inf(-1)
		for _, x := range k.vals {
			e := effective(c.m, x.V)
			tmin, tmax = math.Min(tmin, e), math.Max(tmax, e)
		}
		if !c.exact {
			if !withinAlpha(c.m, alpha, gmin, tmin) {
				return fmt.Sprintf("GetMinValue %v is not within alpha=%v of the true minimum %v", gmin, alpha, tmin)
			}
			if !withinAlpha(c.m, alpha, gmax, tmax) {
				return fmt.Sprintf("GetMaxValue %v is not within alpha=%v of the true maximum %v", gmax, alpha, tmax)
			}
		} else {
			// the exact variant reports the extremes of the values as they were given
			rmin, rmax := math.Inf(1), math.Inf(-1)
			for _, x := range k.vals {
				rmin, rmax = math.Min(rmin, x.V), math.Max(rmax, x.V)
			}
			if gmin != rmin || gmax != rmax {
				return fmt.Sprintf("exact variant: GetMinValue/GetMaxValue = (%v,%v), the values it holds span [%v,%v]", gmin, gmax, rmin, rmax)
			}
		}
	}
	// monotone quantiles inside [min,max]; batch == singles
	qs := append([]float64{}, obs.DefaultQs...)
	for i := 0; i < 6; i++ {
		qs = append(qs, rapid.Float64Range(0, 1).Draw(t, "q"))
	}
	sort.Float64s(qs)
	batch, err := s.GetValuesAtQuantiles(qs)
	if err != nil {
		return fmt.Sprintf("GetValuesAtQuantiles(%v) failed: %v", qs, err)
	}
	prev := math.Inf(-1)
	for i, q := range qs {
		y, err := s.GetValueAtQuantile(q)
		if err != nil {
			return fmt.Sprintf("GetValueAtQuantile(%v) failed: %v", q, err)
		}
		if !(obs.FEq(y, batch[i]) || y == batch[i]) {
			return fmt.Sprintf("batch answer %v differs from single answer %v at q=%v", batch[i], y, q)
		}
		if y < prev {
			return fmt.Sprintf("quantiles decrease: q=%v gives %v after %v", q, y, prev)
		}
		prev = y
		if y < gmin || y > gmax {
			return fmt.Sprintf("q=%v answer %v outside [min,max]=[%v,%v]", q, y, gmin, gmax)
		}
	}
	for _, bad := range []float64{-0.1, 1.5, math.NaN()} {
		if _, err := s.GetValuesAtQuantiles([]float64{0.5, bad, 0.7}); err == nil {
			return fmt.Sprintf("a batch containing the invalid quantile %v returned no error", bad)
		}
	}
	// approximate sum for same-signed data on non-collapsing stores
	if !c.exact && !c.anyCollapsing() && !u.lossy {
		allPos, allNeg := true, true
		var terms []float64
		for _, x := range k.vals {
			e := effective(c.m, x.V)
			if e < 0 {
				allPos = false
			}
			if e > 0 {
				allNeg = false
			}
			terms = append(terms, e*x.W)
		}
		sumAbs := 0.0
		for _, x := range terms {
			sumAbs += math.Abs(x)
		}
		if (allPos || allNeg) && sumAbs < 1e300 { // beyond that the true sum is not representable and the property says nothing
			want := exactSum(terms)
			got := s.GetSum()
			tol := (alpha + 1e-9) * math.Abs(want)
			if !(math.Abs(got-want) <= tol) {
				return fmt.Sprintf("GetSum = %v, true sum of same-signed data %v (relative error %v > alpha=%v)", got, want, math.Abs(got-want)/math.Abs(want), alpha)
			}
			cl.label("same-signed-sum")
		}
	}
	// iteration: weights sum to the count; stops exactly when asked (crossing zero -> positive -> negative hand-over)
	entries := k.entries(c)
	sum := 0.0
	var ws []float64
	s.ForEach(func(v, w float64) bool { ws = append(ws, w); return false })
	sort.Float64s(ws)
	for _, w := range ws {
		sum += w
	}
	if !obs.FEq(sum, s.GetCount()) {
		return fmt.Sprintf("ForEach weights sum to %v, GetCount = %v", sum, s.GetCount())
	}
	for kk := 1; kk <= len(entries); kk++ {
		calls := 0
		s.ForEach(func(v, w float64) bool {
			calls++
			return calls >= kk
		})
		if calls != kk {
			return fmt.Sprintf("ForEach asked to stop at callback %d made %d callbacks (%d entries)", kk, calls, len(entries))
		}
		if kk > 12 && kk < len(entries)-2 {
			kk += len(entries) / 7
		}
	}
	return ""
}

// TestC11_HugeTotal: total weights of 2^53 and far above, reached by reweighting up (count-1 is then rounded to
// count and ranks are only known to within an ulp of the total, so the "one unit of weight" clause cannot be judged);
// what remains decidable is the last clause of C11: every answer is within alpha of some absorbed value, lies between
// the reported minimum and maximum, and never comes from an empty side - in particular at q = 1 and its neighbours.
func TestC11_HugeTotal(t *testing.T) {
	rapid.Check(t, func(t *rapid.T) {
		cl := newCase("C11")
		cl.label("mode:huge-total")
		c := drawCfg(t, cfgOpt{alphaLo: 1e-4, alphaHi: 0.5})
		d := drawDomain(t, c.m, windowFor(c))
		prof := drawProfile(t)
		if rapid.Bool().Draw(t, "onesided") {
			prof = rapid.SampledFrom([]signProfile{{pos: true}, {neg: true}, {zero: true}, {neg: true, zero: true}, {pos: true, zero: true}}).Draw(t, "prof1")
		}
		s := c.new()
		cl.logf("C11 huge total %s", c)
		cl.label("pos:" + c.pos.Name)
		n := rapid.IntRange(1, 12).Draw(t, "n")
		var vals []float64
		total := 0.0
		for i := 0; i < n; i++ {
			v, _, _ := d.value(t, prof)
			w := math.Ldexp(float64(rapid.IntRange(1, 1024).Draw(t, "wm")), rapid.IntRange(-10, 10).Draw(t, "we"))
			if err := s.AddWithCount(v, w); err != nil {
				t.Fatalf("C11 huge: AddWithCount(%v,%v): %v", v, w, err)
			}
			cl.logf("AddWithCount(%v,%v)", v, w)
			vals = append(vals, effective(c.m, v))
			total += w
		}
		// dust: a few more values whose weight is half an ulp of the total (or less). The order in which a store
		// visits its bins then decides how its total is rounded (a sparse store visits them in map order, which
		// changes from one call to the next): every answer must still come from a side that holds something
		dust := rapid.IntRange(0, 2).Draw(t, "dust") > 0
		if dust {
			w := math.Ldexp(1, int(math.Floor(math.Log2(total)))-53-rapid.IntRange(0, 1).Draw(t, "dustexp"))
			for i, nd := 0, rapid.IntRange(2, 4).Draw(t, "ndust"); i < nd; i++ {
				v, _, _ := d.value(t, prof)
				if err := s.AddWithCount(v, w); err != nil {
					t.Fatalf("C11 huge: AddWithCount(%v,%v): %v", v, w, err)
				}
				cl.logf("AddWithCount(%v,%v) (dust)", v, w)
				vals = append(vals, effective(c.m, v))
			}
			cl.label("dust-below-half-ulp-of-total")
		}
		// scale the total to 2^e, e in [52, 90] (around and far above 2^53), in one or two steps
		e := rapid.IntRange(52, 90).Draw(t, "exp")
		k := e - int(math.Floor(math.Log2(total)))
		for k > 0 {
			step := min(k, 40)
			f := math.Ldexp(1, step)
			if err := s.Reweight(f); err != nil {
				t.Fatalf("C11 huge: Reweight(%v): %v", f, err)
			}
			cl.logf("Reweight(2^%d)", step)
			k -= step
		}
		W := s.GetCount()
		cl.labelIf(W >= 0x1p53, "W>=2^53")
		mn, e1 := s.GetMinValue()
		mx, e2 := s.GetMaxValue()
		if e1 != nil || e2 != nil {
			t.Fatalf("C11 huge %s: min/max of a non-empty sketch: %v %v", c, e1, e2)
		}
		alpha := alphaOf(c)
		hasPos, hasNeg := false, false
		for _, v := range vals {
			hasPos = hasPos || v > 0
			hasNeg = hasNeg || v < 0
		}
		cl.labelIf(!(hasPos && hasNeg), "one-sided")
		qs := []float64{1, math.Nextafter(1, 0), 1 - 0x1p-40, 0.999, 0.75, 0.5, 0.25, 1e-3, 0x1p-60, 0}
		if dust {
			// the same questions again and again: the answer may depend on the iteration order of the call
			for i := 0; i < 40; i++ {
				qs = append(qs, 1, math.Nextafter(1, 0), 0)
			}
		}
		batch, berr := s.GetValuesAtQuantiles(qs)
		if berr != nil || len(batch) != len(qs) {
			t.Fatalf("C11 huge %s (W=%v): GetValuesAtQuantiles: %v (%d answers for %d quantiles)", c, W, berr, len(batch), len(qs))
		}
		for qi, q := range qs {
			y, err := s.GetValueAtQuantile(q)
			if err != nil || math.IsNaN(y) {
				t.Fatalf("C11 huge %s (W=%v): quantile %v: %v, %v", c, W, q, y, err)
			}
			if !dust && batch[qi] != y {
				t.Fatalf("C11 huge %s (W=%v): quantile %v: the batch query answers %v, the single query %v", c, W, q, batch[qi], y)
			}
			if by := batch[qi]; by < mn || by > mx || (by > 0 && !hasPos) || (by < 0 && !hasNeg) {
				t.Fatalf("C11 huge %s (W=%v): quantile %v: the batch query answers %v, outside [%v,%v] or from an empty side", c, W, q, by, mn, mx)
			}
			if y < mn || y > mx {
				t.Fatalf("C11 huge %s (W=%v): quantile %v answered %v, outside the reported [min,max] = [%v,%v]", c, W, q, y, mn, mx)
			}
			if (y > 0 && !hasPos) || (y < 0 && !hasNeg) {
				t.Fatalf("C11 huge %s (W=%v): quantile %v answered %v, a value from an empty side (absorbed: %v)", c, W, q, y, vals)
			}
			ok := false
			for _, v := range vals {
				if withinAlpha(c.m, alpha, y, v) {
					ok = true
					break
				}
			}
			if !ok {
				t.Fatalf("C11 huge %s (W=%v): quantile %v answered %v, which is not within alpha of any absorbed value %v", c, W, q, y, vals)
			}
		}
		cl.done(W >= 0x1p53)
	})
}

// TestC12_MonotoneArbitraryWeights: weights that are not dyadic (0.9, 2.8, 1/3, ... in a shuffled order), stores whose
// answers do not depend on map order (dense, collapsing, paginated). Nothing is compared with a model here; what must
// hold whatever the rounding of the sums: for q1 < q2 the answers are ordered, also for quantiles that are adjacent
// floats on either side of a cumulative weight or of half the total, the batch query equals the single queries, and
// every answer lies between the reported minimum and maximum.
func TestC12_MonotoneArbitraryWeights(t *testing.T) {
	rapid.Check(t, func(t *rapid.T) {
		cl := newCase("C12")
		cl.label("arbitrary-weights-monotone")
		spec, m := buildMapping(t, 1e-3, 0.3)
		kind := rapid.SampledFrom([]gen.StoreKind{{Name: "dense"}, {Name: "dense"}, {Name: "paginated"}, {Name: "collow", N: 64}, {Name: "colhigh", N: 64}}).Draw(t, "kind")
		s := ddsketch.NewDDSketch(m, kind.New(), kind.New())
		base := m.Index(1)
		n := rapid.IntRange(2, 12).Draw(t, "bins")
		ws := make([]float64, n)
		for i := range ws {
			ws[i] = rapid.SampledFrom([]float64{0.9, 2.8, 2.5, 0.8, 0.1, 0.3, 1.0 / 3, 0.7, 1.1, 123.456, 1e15 + 0.5, 0x1p53 + 2, 7}).Draw(t, "w")
		}
		order := rapid.Permutation(func() []int {
			o := make([]int, n)
			for i := range o {
				o[i] = i
			}
			return o
		}()).Draw(t, "order")
		neg := rapid.Bool().Draw(t, "neg")
		for _, i := range order {
			v := m.Value(base + i)
			if neg {
				v = -v
			}
			if err := s.AddWithCount(v, ws[i]); err != nil {
				t.Fatalf("C12 monotone: AddWithCount: %v", err)
			}
		}
		cl.logf("C12 monotone %s kind=%s weights=%v order=%v neg=%v", spec, kind, ws, order, neg)
		count := s.GetCount()
		var qs []float64
		around := func(q float64) {
			for d := -3; d <= 3; d++ {
				if x := gen.NextUp(q, d); x >= 0 && x <= 1 {
					qs = append(qs, x)
				}
			}
		}
		cum := 0.0
		for i := 0; i < n; i++ {
			j := i
			if neg {
				j = n - 1 - i
			}
			cum += ws[j]
			around(cum / (count - 1))
			around((cum - 1) / (count - 1))
		}
		around(count / 2 / (count - 1))
		around(0.5)
		qs = append(qs, 0, 1)
		for i := 0; i < 8; i++ {
			qs = append(qs, rapid.Float64Range(0, 1).Draw(t, "q"))
		}
		sort.Float64s(qs)
		mn, _ := s.GetMinValue()
		mx, _ := s.GetMaxValue()
		batch, err := s.GetValuesAtQuantiles(qs)
		if err != nil {
			t.Fatalf("C12 monotone: GetValuesAtQuantiles: %v", err)
		}
		prev, prevq := math.Inf(-1), -1.0
		for i, q := range qs {
			y, err := s.GetValueAtQuantile(q)
			if err != nil {
				t.Fatalf("C12 monotone: GetValueAtQuantile(%v): %v", q, err)
			}
			if y != batch[i] {
				t.Fatalf("C12 monotone %s: quantile %v: single query %v, batch query %v", kind, q, y, batch[i])
			}
			if y < mn || y > mx {
				t.Fatalf("C12 monotone %s: quantile %v answered %v outside [%v,%v]", kind, q, y, mn, mx)
			}
			if y < prev {
				t.Fatalf("C12 monotone %s: quantiles decrease: q=%v -> %v, q=%v -> %v (weights %v added in order %v)", kind, prevq, prev, q, y, ws, order)
			}
			prev, prevq = y, q
		}
		cl.done(true)
	})
}
