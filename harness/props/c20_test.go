package props

import (
	"math"
	"math/big"
	"sort"
	"testing"

	"github.com/DataDog/sketches-go/dataset"
	"pgregory.net/rapid"
	"verifharness/obs"
	"verifharness/stats"
)

func init() {
	stats.Rule("C20", "rapid state machine on dataset.Dataset: Add (finite values, duplicates, negatives, +-0, extremes, ascending/descending/shuffled arrival), queries interleaved with additions (LowerQuantile, UpperQuantile, Quantile, Min, Max, Sum, Count at q in {k/(n-1) and its float neighbours, 0, 1, uniform, <0, >1}), Merge(other built by a sub-history; other must stay the same multiset); a twin receives the same multiset in another order. Oracle: sorted copy of the multiset; lower/upper quantile = x[floor(rho)] / x[ceil(rho)] with rho = q*(n-1) evaluated exactly or in binary64; NaN iff empty or q outside [0,1]; |Sum - exact sum| <= 8*2^-52*sum|v|. Non-trivial: n >= 3 with >= 2 distinct values and at least one addition after a query; distinct by hash of the operation log.")
}

func genDatasetValue(t *rapid.T, prev []float64) float64 {
	switch rapid.IntRange(0, 7).Draw(t, "vclass") {
	case 0:
		if len(prev) > 0 {
			return prev[rapid.IntRange(0, len(prev)-1).Draw(t, "dup")]
		}
		return 0
	case 1:
		return rapid.SampledFrom([]float64{0, math.Copysign(0, -1), 1, -1, math.MaxFloat64, -math.MaxFloat64, math.SmallestNonzeroFloat64, -math.SmallestNonzeroFloat64, 1e300, -1e300}).Draw(t, "special")
	case 2:
		return float64(rapid.IntRange(-20, 20).Draw(t, "smallint"))
	case 3:
		if len(prev) > 0 { // ascending / descending arrival
			d := rapid.Float64Range(0, 10).Draw(t, "step")
			if rapid.Bool().Draw(t, "desc") {
				return prev[len(prev)-1] - d
			}
			return prev[len(prev)-1] + d
		}
		return 1
	default:
		return rapid.Float64Range(-1e6, 1e6).Draw(t, "v")
	}
}

func checkDatasetQuery(t *rapid.T, d *dataset.Dataset, sorted []float64, q float64) {
	n := len(sorted)
	lo, hi, q2 := d.LowerQuantile(q), d.UpperQuantile(q), d.Quantile(q)
	if n == 0 || !(q >= 0 && q <= 1) {
		if !math.IsNaN(lo) || !math.IsNaN(hi) || !math.IsNaN(q2) {
			t.Fatalf("C20: n=%d q=%v: want NaN, got lower=%v upper=%v quantile=%v", n, q, lo, hi, q2)
		}
		return
	}
	nm1 := big.NewRat(int64(n-1), 1)
	elo, ehi, _ := exactRank(q, nm1)
	rho := q * float64(n-1)
	flo, fhi := int(math.Floor(rho)), int(math.Ceil(rho))
	okLo := obs.FEq(lo, sorted[elo.Int64()]) || obs.FEq(lo, sorted[flo])
	okHi := obs.FEq(hi, sorted[ehi.Int64()]) || obs.FEq(hi, sorted[fhi])
	// +0 and -0 compare equal in the sort order: accept either bit pattern when the order statistic is a zero
	if lo == 0 && (sorted[elo.Int64()] == 0 || sorted[flo] == 0) {
		okLo = true
	}
	if hi == 0 && (sorted[ehi.Int64()] == 0 || sorted[fhi] == 0) {
		okHi = true
	}
	if !okLo {
		t.Fatalf("C20: n=%d LowerQuantile(%v) = %v, want x[%v]=%v", n, q, lo, elo, sorted[elo.Int64()])
	}
	if !okHi {
		t.Fatalf("C20: n=%d UpperQuantile(%v) = %v, want x[%v]=%v", n, q, hi, ehi, sorted[ehi.Int64()])
	}
	if !obs.FEq(q2, lo) {
		t.Fatalf("C20: Quantile(%v) = %v differs from LowerQuantile = %v", q, q2, lo)
	}
}

func sortedCopy(v []float64) []float64 {
	s := append([]float64(nil), v...)
	sort.Float64s(s)
	return s
}

func checkDatasetSummary(t *rapid.T, d *dataset.Dataset, vals []float64) {
	s := sortedCopy(vals)
	if d.Count != float64(len(vals)) {
		t.Fatalf("C20: Count = %v want %d", d.Count, len(vals))
	}
	if len(s) > 0 {
		if mn := d.Min(); !(mn == s[0]) {
			t.Fatalf("C20: Min = %v want %v", mn, s[0])
		}
		if mx := d.Max(); !(mx == s[len(s)-1]) {
			t.Fatalf("C20: Max = %v want %v", mx, s[len(s)-1])
		}
	}
	want := exactSum(vals)
	sumAbs := 0.0
	for _, v := range vals {
		sumAbs += math.Abs(v)
	}
	if math.IsInf(sumAbs, 0) {
		// known finding K1 (known_findings.json): partial sums may overflow in the order the values are held; the sum
		// is judged relative to the total of |v| and not at all when that total is not a finite float64
		stats.Count("C20", "sum_not_judged_overflow", 1)
	} else if got := d.Sum(); !(math.Abs(got-want) <= 8*0x1p-52*sumAbs) {
		t.Fatalf("C20: Sum = %v want %v (+- %v)", got, want, 8*0x1p-52*sumAbs)
	}
}

func TestC20(t *testing.T) {
	rapid.Check(t, func(t *rapid.T) {
		cl := newCase("C20")
		d := dataset.NewDataset()
		var vals []float64
		queried, addAfterQuery := false, false
		cl.logf("C20")
		drawQ := func(t *rapid.T) float64 {
			n := len(vals)
			switch rapid.IntRange(0, 6).Draw(t, "qclass") {
			case 0, 1:
				if n > 1 {
					q := float64(rapid.IntRange(0, n-1).Draw(t, "k")) / float64(n-1)
					cl.label("q-on-integer-rank")
					switch rapid.IntRange(0, 2).Draw(t, "qnb") {
					case 1:
						return math.Nextafter(q, -1)
					case 2:
						return math.Nextafter(q, 2)
					}
					return q
				}
				return 0.5
			case 2:
				q := rapid.SampledFrom([]float64{0, 1, -0.1, 1.1, -1e-300, math.Nextafter(1, 2), math.Inf(1), math.Inf(-1), 0.5, math.NaN(), math.Copysign(0, -1)}).Draw(t, "qspecial")
				cl.labelIf(math.IsNaN(q) && n > 0, "q:nan")
				return q
			default:
				return rapid.Float64Range(0, 1).Draw(t, "q")
			}
		}
		t.Repeat(map[string]func(*rapid.T){
			"add": func(t *rapid.T) {
				k := rapid.IntRange(1, 6).Draw(t, "nadd")
				for i := 0; i < k; i++ {
					v := genDatasetValue(t, vals)
					cl.logf("Add(%v)", v)
					d.Add(v)
					vals = append(vals, v)
				}
				if queried {
					addAfterQuery = true
					cl.label("add-after-query")
				}
			},
			"query": func(t *rapid.T) {
				q := drawQ(t)
				cl.logf("query q=%v", q)
				checkDatasetQuery(t, d, sortedCopy(vals), q)
				queried = true
			},
			"summary": func(t *rapid.T) {
				cl.logf("summary")
				checkDatasetSummary(t, d, vals)
				if len(vals) > 0 {
					queried = true
				}
			},
			"merge": func(t *rapid.T) {
				o := dataset.NewDataset()
				var ov []float64
				k := rapid.IntRange(0, 8).Draw(t, "nother")
				for i := 0; i < k; i++ {
					v := genDatasetValue(t, ov)
					o.Add(v)
					ov = append(ov, v)
				}
				if rapid.Bool().Draw(t, "otherqueried") && len(ov) > 0 {
					_ = o.Quantile(0.5) // sorts the argument in place
				}
				cl.logf("Merge(%v)", ov)
				d.Merge(o)
				vals = append(vals, ov...)
				checkDatasetSummary(t, o, ov)
				if len(ov) > 0 {
					checkDatasetQuery(t, o, sortedCopy(ov), 0.5)
				}
				cl.label("merge")
				if queried && len(ov) > 0 {
					addAfterQuery = true
					cl.label("add-after-query")
				}
			},
			"selfmerge": func(t *rapid.T) {
				// "merging datasets equals adding all values to one" also when the argument is the receiver itself (small
				// sizes only: the dataset doubles)
				if len(vals) == 0 || len(vals) > 64 {
					t.Skip("empty or too large")
				}
				cl.logf("Merge(self)")
				d.Merge(d)
				vals = append(vals, vals...)
				cl.label("merge:self")
				if queried {
					addAfterQuery = true
				}
			},
			"twin": func(t *rapid.T) {
				// the same multiset in another order answers identically
				tw := dataset.NewDataset()
				perm := rapid.Permutation(vals).Draw(t, "perm")
				for _, v := range perm {
					tw.Add(v)
				}
				q := drawQ(t)
				cl.logf("twin q=%v", q)
				a1, a2 := d.LowerQuantile(q), tw.LowerQuantile(q)
				b1, b2 := d.UpperQuantile(q), tw.UpperQuantile(q)
				if !(obs.FEq(a1, a2) || a1 == a2) || !(obs.FEq(b1, b2) || b1 == b2) {
					t.Fatalf("C20: insertion order changes the answer at q=%v: (%v,%v) vs (%v,%v)", q, a1, b1, a2, b2)
				}
				queried = queried || len(vals) > 0
			},
			"": func(t *rapid.T) {
				if d.Count != float64(len(vals)) || len(d.Values) != len(vals) {
					t.Fatalf("C20: Count=%v len(Values)=%d after %d additions", d.Count, len(d.Values), len(vals))
				}
			},
		})
		checkDatasetSummary(t, d, vals)
		for _, q := range []float64{0, 0.5, 1} {
			checkDatasetQuery(t, d, sortedCopy(vals), q)
		}
		distinct := map[float64]bool{}
		for _, v := range vals {
			distinct[v] = true
		}
		cl.labelIf(len(vals)-len(distinct) > len(vals)/3, "duplicate-heavy")
		cl.done(len(vals) >= 3 && len(distinct) >= 2 && addAfterQuery)
	})
}

// TestC20_LargeScale: datasets of thousands to tens of thousands of values (around powers of two in particular),
// with queries interleaved with further additions and merges, new record minima / maxima and duplicates arriving
// after queries. Values come from one drawn seed through a cheap deterministic stream.
func TestC20_LargeScale(t *testing.T) {
	rapid.Check(t, func(t *rapid.T) {
		cl := newCase("C20")
		cl.label("large-scale")
		n0 := rapid.SampledFrom([]int{1000, 4095, 4096, 4097, 10000, 16383, 16384, 16385, 20000, 32768, 40000, 65536, 65537, 131071, 131072, 131073, 262144}).Draw(t, "n0")
		seed := rapid.Uint64().Draw(t, "lcgseed")
		lcg := func() uint64 {
			seed = seed*6364136223846793005 + 1442695040888963407
			return seed >> 11
		}
		shape := rapid.SampledFrom([]string{"uniform", "ascending", "descending", "few-distinct"}).Draw(t, "shape")
		val := func(i int) float64 {
			switch shape {
			case "ascending":
				return float64(i) + float64(lcg()%1000)/1000
			case "descending":
				return -float64(i) - float64(lcg()%1000)/1000
			case "few-distinct":
				return float64(lcg() % 17)
			}
			return float64(lcg()%2000001)/1000 - 1000
		}
		cl.logf("C20 large-scale n0=%d shape=%s", n0, shape)
		d := dataset.NewDataset()
		var all []float64
		add := func(v float64) {
			d.Add(v)
			all = append(all, v)
		}
		for i := 0; i < n0; i++ {
			add(val(i))
		}
		check := func(when string) {
			s := sortedCopy(all)
			if d.Count != float64(len(all)) {
				t.Fatalf("C20 large-scale (%s): Count=%v, %d values were added", when, d.Count, len(all))
			}
			if mn, mx := d.Min(), d.Max(); mn != s[0] || mx != s[len(s)-1] {
				t.Fatalf("C20 large-scale (%s, n=%d): Min/Max = %v/%v, want %v/%v", when, len(s), mn, mx, s[0], s[len(s)-1])
			}
			n := len(s)
			qs := []float64{0, 1, 0.5, 1 / float64(n-1), float64(n-2) / float64(n-1), 1e-9, 1 - 1e-9}
			for j := 0; j < 12; j++ {
				k := int(lcg() % uint64(n))
				qs = append(qs, float64(k)/float64(n-1), float64(lcg()%1000003)/1000003)
			}
			for _, q := range qs {
				if q > 1 {
					q = 1
				}
				checkDatasetQuery(t, d, s, q)
			}
			sumAbs, exact := 0.0, new(big.Float).SetPrec(400)
			for _, v := range s {
				sumAbs += math.Abs(v)
				exact.Add(exact, new(big.Float).SetPrec(400).SetFloat64(v))
			}
			want, _ := exact.Float64()
			if got := d.Sum(); !(math.Abs(got-want) <= 8*0x1p-52*sumAbs) {
				t.Fatalf("C20 large-scale (%s): Sum=%v, want %v", when, got, want)
			}
		}
		check("after the initial fill")
		rounds := rapid.IntRange(1, 4).Draw(t, "rounds")
		for r := 0; r < rounds; r++ {
			s := sortedCopy(all)
			lo, hi := s[0], s[len(s)-1]
			m := rapid.SampledFrom([]int{1, 2, 10, 500, 5000, 65535, 65536, 131072}).Draw(t, "batch")
			if rapid.IntRange(0, 3).Draw(t, "topow2") == 0 {
				// a batch that brings the size to the next power of two exactly
				p := 1
				for p <= len(all) {
					p *= 2
				}
				if p-len(all) <= 140000 {
					m = p - len(all)
					cl.label("size:exact-power-of-two")
				}
			}
			kind := rapid.SampledFrom([]string{"below-min", "above-max", "inside", "mixed", "equal-to-min", "merge"}).Draw(t, "batchkind")
			cl.logf("round %d: %s x%d", r, kind, m)
			cl.label("batch:" + kind)
			other := dataset.NewDataset()
			for i := 0; i < m; i++ {
				var v float64
				switch kind {
				case "below-min":
					v = lo - 1 - float64(lcg()%1000)
				case "above-max":
					v = hi + 1 + float64(lcg()%1000)
				case "inside":
					v = s[int(lcg()%uint64(len(s)))]
				case "equal-to-min":
					v = lo
				default:
					switch lcg() % 3 {
					case 0:
						v = lo - float64(lcg()%100)
					case 1:
						v = hi + float64(lcg()%100)
					default:
						v = lo + (hi-lo)*float64(lcg()%1000)/1000
					}
				}
				if kind == "merge" {
					other.Add(v)
					all = append(all, v)
				} else {
					add(v)
				}
			}
			if kind == "merge" {
				before := append([]float64(nil), other.Values...)
				d.Merge(other)
				if len(other.Values) != len(before) {
					t.Fatalf("C20 large-scale: Merge changed its argument")
				}
				cl.label("merge")
			}
			cl.label("add-after-query")
			check(kind)
		}
		stats.Count("C20", "large_scale_values", int64(len(all)))
		cl.done(true)
	})
}
