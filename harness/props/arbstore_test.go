package props

import (
	"bytes"
	"fmt"
	"math"
	"testing"

	"github.com/DataDog/sketches-go/ddsketch/pb/sketchpb"
	"github.com/DataDog/sketches-go/ddsketch/store"
	"google.golang.org/protobuf/proto"
	"pgregory.net/rapid"
	"verifharness/gen"
	"verifharness/refdec"
)

// Stores built by histories with ARBITRARY weights and factors (fractions, huge values, sums whose result depends on
// the order of additions) - including merges between collapsing stores of different bin limits. No model can say what
// each bin must hold bit for bit; the store itself can: whatever its iteration reports is its content, and that
// content, bit for bit, is what a serialized form must carry (C09: protobuf message and streaming writer; C06: binary
// encoding, through the documented (w+1)-1 transform).

func arbAnyWeight(t *rapid.T) float64 {
	switch rapid.IntRange(0, 5).Draw(t, "awclass") {
	case 0:
		return 1
	case 1:
		return rapid.SampledFrom([]float64{0.1, 0.2, 0.3, 1.0 / 3, 0.7, 1e-3, 2.5, 1e16, 9007199254740993, 1e300, 0x1p53, 0x1p60}).Draw(t, "awnamed")
	case 2:
		return float64(rapid.IntRange(2, 1000).Draw(t, "awint"))
	default:
		return gen.LogUniform(1e-9, 1e9).Draw(t, "awlog")
	}
}

type arbStore struct {
	kind gen.StoreKind
	s    store.Store
}

func drawArbKind(t *rapid.T) gen.StoreKind {
	k := gen.AnyKind().Draw(t, "kind")
	if k.Collapsing() && rapid.Bool().Draw(t, "tinyN") {
		k.N = rapid.SampledFrom([]int{1, 1, 2, 3, 4, 8}).Draw(t, "N")
	}
	return k
}

// buildArbStore applies a generated history with arbitrary weights.
func buildArbStore(t *rapid.T, cl *caseLog, base int, noPaginated bool) arbStore {
	a := arbStore{kind: drawArbKind(t)}
	if noPaginated && a.kind.Name == "paginated" {
		a.kind = gen.StoreKind{Name: rapid.SampledFrom([]string{"dense", "sparse"}).Draw(t, "kindinstead")}
	}
	a.s = a.kind.New()
	span := rapid.SampledFrom([]int{2, 10, 60, 300}).Draw(t, "span")
	idx := func() int { return base + gen.Delta(span).Draw(t, "delta") }
	cl.logf("source %s base=%d span=%d", a.kind, base, span)
	fill := func(s store.Store, n int, tag string) {
		for i := 0; i < n; i++ {
			j := idx()
			if rapid.IntRange(0, 2).Draw(t, "unit") == 0 {
				s.Add(j)
				cl.logf("%s Add(%d)", tag, j)
			} else {
				w := arbAnyWeight(t)
				s.AddWithCount(j, w)
				cl.logf("%s AddWithCount(%d,%x)", tag, j, math.Float64bits(w))
			}
		}
	}
	n := rapid.IntRange(1, 12).Draw(t, "ops")
	for i := 0; i < n; i++ {
		switch rapid.SampledFrom([]string{"fill", "fill", "fill", "merge", "merge", "reweight", "copy"}).Draw(t, "op") {
		case "fill":
			fill(a.s, rapid.IntRange(1, 6).Draw(t, "n"), "")
		case "merge":
			ok := drawArbKind(t)
			if rapid.Bool().Draw(t, "samekind") {
				ok.Name = a.kind.Name
				if ok.Collapsing() && ok.N == 0 {
					ok.N = gen.BinLimit().Draw(t, "argN")
				}
				if !ok.Collapsing() {
					ok.N = 0
				}
				cl.labelIf(ok.Collapsing() && ok.N != a.kind.N, "merge:same-kind-other-limit")
			}
			o := ok.New()
			cl.logf("merge argument %s:", ok)
			fill(o, rapid.IntRange(0, 8).Draw(t, "argn"), "  arg")
			a.s.MergeWith(o)
			cl.label("op:merge")
		case "reweight":
			f := arbFactor(t)
			if err := a.s.Reweight(f); err != nil {
				t.Fatalf("Reweight(%v) refused: %v", f, err)
			}
			cl.logf("Reweight(%x)", math.Float64bits(f))
			cl.label("op:reweight")
		case "copy":
			a.s = a.s.Copy()
			cl.logf("Copy")
		}
	}
	return a
}

// observedBins: the store's content as its own iteration reports it (bins of weight 0 left out); duplicates are an error.
func observedBins(t *rapid.T, what string, s store.Store) map[int]float64 {
	out := map[int]float64{}
	dup := false
	s.ForEach(func(i int, c float64) bool {
		if _, ok := out[i]; ok {
			dup = true
		}
		if c != 0 {
			out[i] = c
		}
		return false
	})
	if dup {
		t.Fatalf("%s: ForEach reported an index twice", what)
	}
	return out
}

func sameBinsBitwise(got, want map[int]float64) string {
	for i, w := range want {
		g, ok := got[i]
		if !ok {
			return fmt.Sprintf("bin %d (weight %x = %v) is missing", i, math.Float64bits(w), w)
		}
		if math.Float64bits(g) != math.Float64bits(w) {
			return fmt.Sprintf("bin %d holds %x (%v), the source holds %x (%v)", i, math.Float64bits(g), g, math.Float64bits(w), w)
		}
	}
	for i, g := range got {
		if _, ok := want[i]; !ok {
			return fmt.Sprintf("bin %d (weight %v) is not in the source", i, g)
		}
	}
	return ""
}

func TestC09_ObservedContent(t *testing.T) {
	rapid.Check(t, func(t *rapid.T) {
		cl := newCase("C09")
		cl.label("mode:observed-content")
		base := rapid.SampledFrom([]int{0, 0, 16, -33, 1000, -100000}).Draw(t, "base")
		a := buildArbStore(t, cl, base, false)
		cl.label("source:" + a.kind.Name)
		want := observedBins(t, "C09 source", a.s)
		pb := a.s.ToProto()
		if again := observedBins(t, "C09 source", a.s); sameBinsBitwise(again, want) != "" {
			t.Fatalf("C09 observed-content %s: ToProto changed the store: %s", a.kind, sameBinsBitwise(again, want))
		}
		wire, err := proto.Marshal(pb)
		if err != nil {
			t.Fatalf("C09: Marshal: %v", err)
		}
		var back sketchpb.Store
		if err := proto.Unmarshal(wire, &back); err != nil {
			t.Fatalf("C09: Unmarshal: %v", err)
		}
		var buf bytes.Buffer
		a.s.EncodeProto(sketchpb.NewStoreBuilder(&buf))
		var streamed sketchpb.Store
		if err := proto.Unmarshal(buf.Bytes(), &streamed); err != nil {
			t.Fatalf("C09 observed-content %s: bytes of the streaming writer do not unmarshal: %v", a.kind, err)
		}
		if !proto.Equal(&streamed, pb) {
			t.Fatalf("C09 observed-content %s: streaming writer wrote %v, ToProto() is %v", a.kind, &streamed, pb)
		}
		for name, msg := range map[string]*sketchpb.Store{"ToProto": &back, "EncodeProto": &streamed} {
			for _, tk := range gen.NonCollapsing {
				target := tk.New()
				mergeProto(target, msg, rapid.Bool().Draw(t, "viamethod"))
				if d := sameBinsBitwise(observedBins(t, "C09 rebuilt", target), want); d != "" {
					t.Fatalf("C09 observed-content: %s of a %s store rebuilt into %s: %s", name, a.kind, tk, d)
				}
			}
		}
		cl.done(len(want) >= 1 && (cl.has("op:merge") || cl.has("op:reweight")))
	})
}

func TestC06_ObservedContent(t *testing.T) {
	rapid.Check(t, func(t *rapid.T) {
		cl := newCase("C06")
		cl.label("observed-content")
		base := rapid.SampledFrom([]int{0, 0, 16, -33, 1000, -100000}).Draw(t, "base")
		// no paginated source here: an index held both as buffered unit entries and in a page is written as two
		// contributions, each transformed on its own: what the sum must be after decoding is not determined bit for bit
		a := buildArbStore(t, cl, base, true)
		cl.label("source:" + a.kind.Name)
		obsd := observedBins(t, "C06 source", a.s)
		want := map[int]float64{}
		for i, w := range obsd {
			if x := refdec.VarfloatTransform(w); x != 0 {
				want[i] = x
			}
		}
		b := encodeStore(a.s)
		if again := observedBins(t, "C06 source", a.s); sameBinsBitwise(again, obsd) != "" {
			t.Fatalf("C06 observed-content %s: Encode changed the store: %s", a.kind, sameBinsBitwise(again, obsd))
		}
		for _, tk := range gen.NonCollapsing {
			target := tk.New()
			if err := decodeInto(target, b); err != nil {
				t.Fatalf("C06 observed-content: decoding the encoding of a %s store into %s failed: %v", a.kind, tk, err)
			}
			if d := sameBinsBitwise(observedBins(t, "C06 decoded", target), want); d != "" {
				t.Fatalf("C06 observed-content: encoding of a %s store decoded into %s: %s (expected (w+1)-1 of each weight the source reports)", a.kind, tk, d)
			}
		}
		cl.done(len(want) >= 1 && (cl.has("op:merge") || cl.has("op:reweight")))
	})
}
