package props

import (
	"errors"
	"fmt"
	"math"
	"testing"

	"github.com/DataDog/sketches-go/ddsketch"
	"github.com/DataDog/sketches-go/ddsketch/mapping"
	"github.com/DataDog/sketches-go/ddsketch/stat"
	"github.com/DataDog/sketches-go/ddsketch/store"
	"pgregory.net/rapid"
	"verifharness/gen"
	"verifharness/model"
	"verifharness/obs"
	"verifharness/stats"
)

func init() {
	stats.Rule("C13", "rapid cases: a sketch (both variants, all five store kinds, three mappings) in a reachable state built by a short generated history (possibly empty), then one call: Add/AddWithCount with value in {NaN, +-Inf, +-MaxFloat64, neighbours of +-MaxIndexableValue, +-MaxIndexableValue, -0, subnormals, in-range finite} x weight in {negative incl. -2^-1074 and -Inf, -0, 0, positive, +Inf (acceptance only, on a copy)}; quantile queries with q in {NaN, -2^-1074, nextafter(1,2), -1, 2, +-Inf, -0, 0, 1, random} single and batch, empty and non-empty; MergeWith a sketch whose mapping differs in kind, by >= 0.1% in accuracy, or only in its index offset; Reweight by {0, -0, negative, -Inf}; constructors with accuracies/bases inside and outside their domains; NewBin; NewSummaryStatisticsFromData; NewDDSketchWithExactSummaryStatisticsFromData. Oracle: the documented error value (or any non-nil error where none is exported) for invalid input, nil for valid input, and after a refusal the full observation of the sketch (and of the merge argument) is identical to the one taken before. Non-trivial: a refusal on a non-empty sketch or an acceptance at a boundary value; distinct by hash of the printed case.")
}

var c13Kinds = []string{"add", "add", "add", "merge", "clear", "reweight", "encdec", "copy"}

func TestC13(t *testing.T) {
	rapid.Check(t, func(t *rapid.T) {
		cl := newCase("C13")
		c := drawCfg(t, cfgOpt{alphaLo: 1e-4, alphaHi: 0.5, collapsing: true, exact: 2})
		d := drawDomain(t, c.m, windowFor(c))
		prof := drawProfile(t)
		bud := model.NewBudget(gen.Quantum)
		u := newSkUT(c, d, bud, cl)
		g := &kopGen{dom: d, prof: prof, bud: bud, kinds: c13Kinds, collapsing: true}
		n := rapid.IntRange(0, 8).Draw(t, "histlen")
		cl.logf("C13 %s", c)
		for i := 0; i < n; i++ {
			op := g.drawOp(t, u)
			cl.logf("%s", op)
			if msg := u.apply(op); msg != "" {
				t.Fatalf("C13 %s: building the state, after %s: %s", c, op, msg)
			}
		}
		nonEmpty := u.k.total() > 0
		cl.labelIf(nonEmpty, "state:non-empty")
		cl.labelIf(!nonEmpty, "state:empty")
		cl.labelIf(c.exact, "variant:exact")
		cl.labelIf(!c.exact, "variant:plain")
		nearEqual := false
		before := u.fullObs(u.s, u.k, c)
		unchanged := func(what string) {
			if dd := obs.DiffSketch(u.fullObs(u.s, u.k, c), before, u.diffOpts()); dd != "" {
				t.Fatalf("C13 %s: %s changed the sketch: %s", c, what, dd)
			}
			if nearEqual {
				return
			}
			if msg := u.invariant(); msg != "" {
				t.Fatalf("C13 %s: after %s: %s", c, what, msg)
			}
		}
		// One time in four the sketch then decode-merges a stream whose mapping is Equal to its own without being
		// bit-identical (base off by a few 1e-13): accepted, and from then on the sketch's own mapping - the one it
		// reports - is what decides which values are trackable. (The bin-level invariant is not re-checked after
		// that: the model indexes with the original mapping.)
		if rapid.IntRange(0, 3).Draw(t, "nearequalmapping") == 0 {
			g0, o0 := gen.GammaOf(c.m)
			k := rapid.SampledFrom([]float64{1, -1, 3, -3, 4, -4}).Draw(t, "nearequalk")
			if nm, err := (gen.MapSpec{Kind: gen.KindOf(c.m), Gamma: g0 * (1 + k*1e-13), Offset: o0}).Build(); err == nil && c.m.Equals(nm) && nm.Equals(c.m) {
				carrier := ddsketch.NewDDSketch(nm, store.NewSparseStore(), store.NewSparseStore())
				var cb []byte
				carrier.Encode(&cb, false)
				if err := u.s.DecodeAndMergeWith(cb); err != nil {
					t.Fatalf("C13 %s: DecodeAndMergeWith of an empty sketch whose mapping is Equal (base*(1%+.0e)) refused: %v", c, k*1e-13, err)
				}
				nearEqual = true
				cl.label("near-equal-mapping-decoded")
				cl.logf("decode-merged an empty sketch with base*(1%+.0e)", k*1e-13)
				before = u.fullObs(u.s, u.k, c)
			}
		}
		cur := u.s.Inner().IndexMapping
		mx := cur.MaxIndexableValue()
		mn := cur.MinIndexableValue()
		nontrivial := false
		call := rapid.SampledFrom([]string{"add", "add", "add", "quantile", "quantile", "batch", "merge", "reweight", "constructors"}).Draw(t, "call")
		cl.label("call:" + call)
		switch call {
		case "add":
			v := rapid.SampledFrom([]float64{math.NaN(), math.Inf(1), math.Inf(-1), math.MaxFloat64, -math.MaxFloat64, gen.NextUp(mx, 1), -gen.NextUp(mx, 1), mx, -mx, gen.NextUp(mx, -1), mn, -mn, gen.NextUp(mn, 1), math.Copysign(0, -1), 0, 5e-324, -5e-324, u.safeV, -u.safeV}).Draw(t, "v")
			w := rapid.SampledFrom([]float64{1, 1, 1, -1, -0.5, -5e-324, math.Inf(-1), math.Copysign(0, -1), 0, 2.5, 1024, math.Inf(1)}).Draw(t, "w")
			viaAdd := w == 1 && rapid.Bool().Draw(t, "viaAdd")
			cl.logf("call AddWithCount(%v, %v) viaAdd=%v", v, w, viaAdd)
			var wantErrs []error
			if w < 0 {
				wantErrs = append(wantErrs, ddsketch.ErrNegativeCount)
			}
			switch {
			case math.IsNaN(v):
				wantErrs = append(wantErrs, ddsketch.ErrUntrackableNaN)
			case v > mx:
				wantErrs = append(wantErrs, ddsketch.ErrUntrackableTooHigh)
			case v < -mx:
				wantErrs = append(wantErrs, ddsketch.ErrUntrackableTooLow)
			}
			target := u.s
			if len(wantErrs) == 0 {
				// acceptance is checked on a throw-away copy so that the state (and the exactness budget) is not disturbed
				target = u.s.Copy()
			}
			var err error
			if viaAdd {
				err = target.Add(v)
			} else {
				err = target.AddWithCount(v, w)
			}
			if len(wantErrs) == 0 {
				if err != nil {
					t.Fatalf("C13 %s: AddWithCount(%v,%v) (finite value within range, non-negative weight) refused: %v", c, v, w, err)
				}
				if math.Abs(v) == mx || v == math.Copysign(0, -1) || math.Abs(v) == mn {
					nontrivial = true
					cl.label("accept-at-boundary")
				}
				if w > 0 && !math.IsInf(w, 1) {
					// the accepted value is now in the copy
					if got, want := target.GetCount(), before.Count+w; !(math.Abs(got-want) <= 1e-9*want) {
						t.Fatalf("C13 %s: after accepting (%v,%v) the count is %v, expected %v", c, v, w, got, want)
					}
				}
				unchanged("an add on a copy")
			} else {
				okErr := false
				for _, we := range wantErrs {
					if errors.Is(err, we) {
						okErr = true
					}
				}
				if !okErr {
					t.Fatalf("C13 %s: AddWithCount(%v,%v) returned %v, expected one of %v", c, v, w, err, wantErrs)
				}
				cl.label("refused-add")
				nontrivial = nontrivial || nonEmpty
				unchanged(fmt.Sprintf("the refused AddWithCount(%v,%v)", v, w))
			}
		case "quantile", "batch":
			q := rapid.SampledFrom([]float64{math.NaN(), -5e-324, math.Nextafter(1, 2), -1, 2, math.Inf(1), math.Inf(-1), math.Copysign(0, -1), 0, 1, 0.5, 1 - 0x1p-53}).Draw(t, "q")
			if rapid.IntRange(0, 3).Draw(t, "randq") == 0 {
				q = rapid.Float64Range(0, 1).Draw(t, "qr")
			}
			valid := q >= 0 && q <= 1
			var err error
			var ys []float64
			if call == "quantile" {
				var y float64
				y, err = u.s.GetValueAtQuantile(q)
				ys = []float64{y}
				cl.logf("call GetValueAtQuantile(%v)", q)
			} else {
				qs := []float64{0.25, q, 0.75}
				ys, err = u.s.GetValuesAtQuantiles(qs)
				cl.logf("call GetValuesAtQuantiles(%v)", qs)
			}
			if valid && nonEmpty {
				if err != nil {
					t.Fatalf("C13 %s: quantile %v on a non-empty sketch refused: %v", c, q, err)
				}
				for _, y := range ys {
					if math.IsNaN(y) {
						t.Fatalf("C13 %s: quantile %v answered NaN", c, q)
					}
				}
				if q == 0 || q == 1 || q == 1-0x1p-53 {
					nontrivial = true
					cl.label("accept-at-boundary")
				}
			} else {
				if err == nil {
					t.Fatalf("C13 %s: quantile %v (valid=%v) on a sketch with total weight %v returned %v without error", c, q, valid, u.k.total(), ys)
				}
				cl.label("refused-quantile")
				nontrivial = nontrivial || nonEmpty
			}
			unchanged("a quantile query")
		case "merge":
			// argument with another mapping: other kind, or same kind and accuracy >= 0.1% apart
			ospec := c.spec
			alpha := c.m.RelativeAccuracy()
			switch mm := rapid.IntRange(0, 3).Draw(t, "mismatchclass"); {
			case mm == 3:
				// same kind, another base, one of them possibly so coarse that its accuracy rounds to 1
				g0, o0 := gen.GammaOf(c.m)
				g2 := rapid.SampledFrom([]float64{g0 * 2, g0 * g0, 1e15, 1e30, g0 * 1.001}).Draw(t, "othergamma")
				ospec = gen.MapSpec{Kind: gen.KindOf(c.m), Gamma: g2, Offset: o0}
				cl.label("mismatch:base")
			case mm == 0:
				for ospec.Kind == c.spec.Kind {
					ospec.Kind = rapid.SampledFrom(gen.MapKinds).Draw(t, "okind")
				}
				cl.label("mismatch:kind")
			case mm == 1:
				// same kind and base, another index offset (one of the two possibly exactly 0)
				g0, o0 := gen.GammaOf(c.m)
				o2 := o0 + rapid.SampledFrom([]float64{1, -1, 0.5, -7.25, 1e-3, 64}).Draw(t, "doffset")
				if o0 != 0 && rapid.Bool().Draw(t, "zerooffset") {
					o2 = 0
				}
				if math.Abs(o2-o0) <= 1e-6*math.Max(1, math.Max(math.Abs(o0), math.Abs(o2))) {
					o2 = o0 + 1 // a tiny (engineered) offset against 0 is within the tolerance of Equals: not a mismatch
				}
				ospec = gen.MapSpec{Kind: gen.KindOf(c.m), Gamma: g0, Offset: o2}
				cl.label("mismatch:offset")
			default:
				delta := rapid.SampledFrom([]float64{1e-3, -1e-3, 0.01, 0.3, -0.3}).Draw(t, "delta")
				a2 := alpha * (1 + delta)
				if a2 >= 1 {
					a2 = alpha * (1 - 1e-3)
				}
				ospec = gen.MapSpec{Kind: c.spec.Kind, FromAlpha: true, Alpha: a2}
				cl.label("mismatch:alpha")
			}
			om, err := ospec.Build()
			if err != nil {
				t.Skip("mismatching mapping could not be built")
			}
			if c.m.Equals(om) {
				t.Fatalf("C13 %s: mapping %s compares equal", c, ospec)
			}
			oc := skCfg{spec: ospec, m: om, pos: c.pos, neg: c.neg, exact: c.exact}
			arg := oc.new()
			ak := newSkModel(om)
			if rapid.Bool().Draw(t, "argnonempty") {
				od := drawDomain(t, om, windowFor(oc))
				for i := 0; i < 3; i++ {
					v, _, _ := od.value(t, prof)
					_ = arg.Add(v)
					ak.add(v, 1)
				}
			}
			cl.logf("call MergeWith(sketch with mapping %s, %d values)", ospec, len(ak.vals))
			abefore := u.fullObs(arg, ak, oc)
			if err := u.s.MergeWith(arg); err == nil {
				t.Fatalf("C13 %s: MergeWith a sketch with mapping %s was accepted", c, ospec)
			}
			if dd := obs.DiffSketch(u.fullObs(arg, ak, oc), abefore, obs.DiffOpts{IgnoreSum: !oc.exact && oc.anySparse()}); dd != "" {
				t.Fatalf("C13 %s: the refused MergeWith changed its argument: %s", c, dd)
			}
			cl.label("refused-merge")
			nontrivial = nontrivial || nonEmpty
			unchanged("the refused MergeWith")
			// the same two sketches as one stream: their encodings, each with its own mapping, one after the other. A
			// decoder that is given no mapping adopts the first one and must refuse the second (in either order)
			var b1, b2 []byte
			u.s.Encode(&b1, false)
			arg.Encode(&b2, false)
			for _, stream := range [][]byte{append(append([]byte{}, b1...), b2...), append(append([]byte{}, b2...), b1...)} {
				if _, err := decodeSketch(u.cfg, stream, false); err == nil {
					t.Fatalf("C13 %s: a stream holding this sketch and one with mapping %s, decoded without a given mapping, was accepted", c, ospec)
				}
			}
			cl.label("refused-decode-of-two-mappings")
		case "reweight":
			w := rapid.SampledFrom([]float64{0, math.Copysign(0, -1), -1, -0.5, -5e-324, math.Inf(-1), -1e300}).Draw(t, "w")
			cl.logf("call Reweight(%v)", w)
			if rapid.IntRange(0, 2).Draw(t, "storelevel") == 0 {
				// the same refusal asked of the sketch's own stores (the sketch-level check never lets them see a bad factor)
				for side, st := range map[string]store.Store{"positive": u.s.Pos(), "negative": u.s.Neg()} {
					if err := st.Reweight(w); err == nil {
						t.Fatalf("C13 %s: Reweight(%v) was accepted by the %s store", c, w, side)
					}
				}
				cl.label("refused-reweight-store-level")
			}
			if err := u.s.Reweight(w); err == nil {
				t.Fatalf("C13 %s: Reweight(%v) was accepted", c, w)
			}
			cl.label("refused-reweight")
			nontrivial = nontrivial || nonEmpty
			unchanged(fmt.Sprintf("the refused Reweight(%v)", w))
		case "constructors":
			a := rapid.SampledFrom([]float64{0, math.Copysign(0, -1), -1e-9, -1, 1, math.Nextafter(1, 2), 2, math.Inf(1), math.Inf(-1), 5e-324, 1e-300, 1e-17, 5e-17, 1.2e-16, 1e-15, 1e-12, 1e-10, math.Nextafter(1, 0), 0.5, 1e-6, 0.99}).Draw(t, "alpha")
			valid := a > 0 && a < 1
			cl.logf("call constructors(alpha=%v) and (gamma=...)", a)
			type ctor struct {
				name string
				f    func() error
			}
			N := 16
			cs := []ctor{
				{"NewLogarithmicMapping", func() error { _, e := mapping.NewLogarithmicMapping(a); return e }},
				{"NewLinearlyInterpolatedMapping", func() error { _, e := mapping.NewLinearlyInterpolatedMapping(a); return e }},
				{"NewCubicallyInterpolatedMapping", func() error { _, e := mapping.NewCubicallyInterpolatedMapping(a); return e }},
				{"NewDefaultMapping", func() error { _, e := mapping.NewDefaultMapping(a); return e }},
				{"NewDefaultDDSketch", func() error { _, e := ddsketch.NewDefaultDDSketch(a); return e }},
				{"LogUnboundedDenseDDSketch", func() error { _, e := ddsketch.LogUnboundedDenseDDSketch(a); return e }},
				{"LogCollapsingLowestDenseDDSketch", func() error { _, e := ddsketch.LogCollapsingLowestDenseDDSketch(a, N); return e }},
				{"LogCollapsingHighestDenseDDSketch", func() error { _, e := ddsketch.LogCollapsingHighestDenseDDSketch(a, N); return e }},
				{"NewDefaultDDSketchWithExactSummaryStatistics", func() error { _, e := ddsketch.NewDefaultDDSketchWithExactSummaryStatistics(a); return e }},
			}
			for _, k := range cs {
				err := k.f()
				// an accuracy so small that the base (1+a)/(1-a) is rounded to 1 cannot be honoured: refusing it is the
				// "base not above one" refusal (what is never acceptable is neither a mapping nor an error, see below)
				if valid && err != nil && a >= 1e-15 {
					t.Fatalf("C13: %s(%v) refused a valid accuracy: %v", k.name, a, err)
				}
				if !valid && err == nil {
					t.Fatalf("C13: %s(%v) accepted an accuracy outside (0,1)", k.name, a)
				}
			}
			// a constructor returns a usable object or an error, never neither
			for name, f := range map[string]func() (mapping.IndexMapping, error){
				"NewLogarithmicMapping": func() (mapping.IndexMapping, error) {
					m, e := mapping.NewLogarithmicMapping(a)
					if m == nil {
						return nil, e
					}
					return m, e
				},
				"NewLinearlyInterpolatedMapping": func() (mapping.IndexMapping, error) {
					m, e := mapping.NewLinearlyInterpolatedMapping(a)
					if m == nil {
						return nil, e
					}
					return m, e
				},
				"NewCubicallyInterpolatedMapping": func() (mapping.IndexMapping, error) {
					m, e := mapping.NewCubicallyInterpolatedMapping(a)
					if m == nil {
						return nil, e
					}
					return m, e
				},
			} {
				m, err := f()
				if (m == nil) == (err == nil) {
					t.Fatalf("C13: %s(%v) returned mapping=%v and error=%v", name, a, m, err)
				}
			}
			if sk, err := ddsketch.NewDefaultDDSketch(a); err == nil {
				func() {
					defer func() {
						if r := recover(); r != nil {
							t.Fatalf("C13: NewDefaultDDSketch(%v) returned no error but the sketch panics on Add: %v", a, r)
						}
					}()
					_ = sk.Add(1)
				}()
			}
			gam := rapid.SampledFrom([]float64{1, math.Nextafter(1, 0), 0, -1, 0.5, math.Inf(-1), math.Nextafter(1, 2), 1.02, 2, 1e6}).Draw(t, "gamma")
			gvalid := gam > 1
			for _, k := range gen.MapKinds {
				_, err := gen.MapSpec{Kind: k, Gamma: gam, Offset: 0}.Build()
				if gvalid && err != nil {
					t.Fatalf("C13: New %s mapping with gamma %v refused: %v", k, gam, err)
				}
				if !gvalid && err == nil {
					t.Fatalf("C13: New %s mapping with gamma %v (not above 1) accepted", k, gam)
				}
			}
			// bins
			bw := rapid.SampledFrom([]float64{-1, -5e-324, math.Inf(-1), 0, 1, 2.5}).Draw(t, "binw")
			if _, err := store.NewBin(3, bw); (err != nil) != (bw < 0) {
				t.Fatalf("C13: NewBin(3,%v) err=%v", bw, err)
			}
			// summary statistics from data
			type sd struct {
				count, sum, min, max float64
				valid                bool
			}
			cases := []sd{
				{-1, 0, 0, 0, false}, {2, 3, 2, 1, false}, {0, 0, 0, 0, false}, {0, 0, math.Inf(1), 0, false}, {0, 0, 1, math.Inf(-1), false},
				{0, 0, math.Inf(1), math.Inf(-1), true}, {2, 3, 1, 2, true}, {1, 5, 5, 5, true}, {0.5, 1, 2, 2, true},
			}
			x := rapid.SampledFrom(cases).Draw(t, "statcase")
			ss, err := stat.NewSummaryStatisticsFromData(x.count, x.sum, x.min, x.max)
			if x.valid != (err == nil) {
				t.Fatalf("C13: NewSummaryStatisticsFromData(%v,%v,%v,%v) err=%v, valid=%v", x.count, x.sum, x.min, x.max, err, x.valid)
			}
			if err == nil && (ss.Count() != x.count || ss.Sum() != x.sum || ss.Min() != x.min || ss.Max() != x.max) {
				t.Fatalf("C13: NewSummaryStatisticsFromData(%v,%v,%v,%v) holds (%v,%v,%v,%v)", x.count, x.sum, x.min, x.max, ss.Count(), ss.Sum(), ss.Min(), ss.Max())
			}
			// sketch + statistics that do not match
			plain := u.s.Inner().Copy()
			stEmpty := stat.NewSummaryStatistics()
			stOne, _ := stat.NewSummaryStatisticsFromData(1, 1, 1, 1)
			_, e1 := ddsketch.NewDDSketchWithExactSummaryStatisticsFromData(plain, stEmpty)
			_, e2 := ddsketch.NewDDSketchWithExactSummaryStatisticsFromData(plain, stOne)
			if plain.IsEmpty() != (e1 == nil) || plain.IsEmpty() != (e2 != nil) {
				t.Fatalf("C13: NewDDSketchWithExactSummaryStatisticsFromData(empty=%v): errors with empty stats %v, with non-empty stats %v", plain.IsEmpty(), e1, e2)
			}
			cl.labelIf(!valid, "refused-constructor")
			nontrivial = true
			unchanged("constructor calls")
		}
		cl.done(nontrivial)
	})
}

// TestC13_DegenerateRange: mappings whose indexable range is empty or lies at the end of the float range (accuracies
// below 2.3e-10, huge index offsets as a decoder can receive): whatever the range, a value above the largest indexable
// value, an infinity or NaN is refused with the documented error and changes nothing; everything else is accepted.
func TestC13_DegenerateRange(t *testing.T) {
	rapid.Check(t, func(t *rapid.T) {
		cl := newCase("C13")
		cl.label("degenerate-range")
		var spec gen.MapSpec
		kind := rapid.SampledFrom(gen.MapKinds).Draw(t, "kind")
		if rapid.Bool().Draw(t, "fromalpha") {
			a := rapid.SampledFrom([]float64{1e-10, 2e-10, 2.4e-10, 1e-12, 1e-15, 3e-10}).Draw(t, "alpha")
			spec = gen.MapSpec{Kind: kind, FromAlpha: true, Alpha: a}
		} else {
			g := rapid.SampledFrom([]float64{1.02, 1.0001, 2, 1.5, 1e13, 1e15, 1e30, 1e100, 1e200, 1e214, 1e250, 1e300, 1e306, 1e308, math.MaxFloat64}).Draw(t, "gamma")
			o := rapid.SampledFrom([]float64{-1e11, 1e11, 3e9, -3e9, 2.2e9, -2.2e9, 1e15, -1e15, 2147483647, -2147483648, 0, 0, 1}).Draw(t, "offset")
			spec = gen.MapSpec{Kind: kind, Gamma: g, Offset: o}
		}
		m, err := spec.Build()
		if err != nil {
			t.Skip("mapping refused")
		}
		mn, mx := m.MinIndexableValue(), m.MaxIndexableValue()
		// (bounds that are not numbers - which finite parameters used to produce - leave "above the largest indexable
		// value" undefined: only the infinities and NaN are then judged)
		nanBounds := math.IsNaN(mx) || math.IsNaN(mn)
		cl.labelIf(nanBounds, "range:nan")
		cl.logf("C13 degenerate %s: indexable range [%v,%v]", spec, mn, mx)
		cl.labelIf(!(mn < mx), "range:empty")
		exact := rapid.Bool().Draw(t, "exact")
		s := obs.NewSK(exact, m, func() store.Store { return store.NewSparseStore() }, func() store.Store { return store.NewSparseStore() })
		accepted := 0.0
		probes := []float64{1, -1, 0.1, -0.1, 10, math.Inf(1), math.Inf(-1), math.MaxFloat64, -math.MaxFloat64, math.NaN(), mx, -mx, gen.NextUp(mx, 1), -gen.NextUp(mx, 1), gen.NextUp(mx, -1), mn, 0, 5e-324, 1e300, -1e300, 1e-300}
		for _, v := range probes {
			w := rapid.SampledFrom([]float64{1, 1, 2.5, 0}).Draw(t, "w")
			before := s.GetCount()
			err := s.AddWithCount(v, w)
			var want error
			switch {
			case math.IsNaN(v):
				want = ddsketch.ErrUntrackableNaN
			case v > mx || math.IsInf(v, 1):
				want = ddsketch.ErrUntrackableTooHigh
			case v < -mx || math.IsInf(v, -1):
				want = ddsketch.ErrUntrackableTooLow
			case nanBounds:
				continue
			}
			cl.logf("AddWithCount(%v,%v) -> %v", v, w, err)
			if want != nil {
				if !errors.Is(err, want) {
					t.Fatalf("C13 degenerate %s (range [%v,%v], exact=%v): AddWithCount(%v,%v) returned %v, expected %v", spec, mn, mx, exact, v, w, err, want)
				}
				if s.GetCount() != before {
					t.Fatalf("C13 degenerate %s: the refused AddWithCount(%v,%v) changed the count from %v to %v", spec, v, w, before, s.GetCount())
				}
				cl.label("refused-add")
			} else {
				if err != nil {
					t.Fatalf("C13 degenerate %s (range [%v,%v]): AddWithCount(%v,%v) (not above the largest indexable value) refused: %v", spec, mn, mx, v, w, err)
				}
				accepted += w
				if got := s.GetCount(); got != accepted {
					t.Fatalf("C13 degenerate %s: count %v after accepting a total weight of %v", spec, got, accepted)
				}
			}
		}
		// a sketch whose mapping has the same kind and offset but another base is refused as a merge argument, however
		// extreme both bases are (accuracies that all round to 1 included), and the refusal changes nothing
		g0, o0 := gen.GammaOf(m)
		for _, g2 := range []float64{g0 * 2, g0 * g0, g0 * 1e15} {
			om, err := (gen.MapSpec{Kind: kind, Gamma: g2, Offset: o0}).Build()
			if err != nil || math.IsInf(g2, 0) || math.Abs(g2-g0) < 1e-3*g0 {
				continue // (bases closer than 0.1% may legitimately compare equal: gamma^2 for an accuracy of 1e-15)
			}
			arg := obs.NewSK(exact, om, func() store.Store { return store.NewSparseStore() }, func() store.Store { return store.NewSparseStore() })
			_ = arg.AddWithCount(0, 2)
			before := s.GetCount()
			if err := s.MergeWith(arg); err == nil {
				t.Fatalf("C13 degenerate %s: MergeWith a sketch whose mapping has base %v (same kind and offset) was accepted", spec, g2)
			}
			if s.GetCount() != before {
				t.Fatalf("C13 degenerate %s: the refused MergeWith changed the count from %v to %v", spec, before, s.GetCount())
			}
			cl.label("refused-merge")
		}
		cl.done(true)
	})
}
