package props

// Plain regression tests of every confirmed finding (they bypass rapid). Each
// fails again if the defect returns. Names are TestRegression_<property>_<finding>.

import (
	"errors"
	"math"
	"testing"

	"github.com/DataDog/sketches-go/dataset"
	"github.com/DataDog/sketches-go/ddsketch"
	"github.com/DataDog/sketches-go/ddsketch/mapping"
	"github.com/DataDog/sketches-go/ddsketch/store"
)

func TestRegression_C05_F1_WideMergeIntoEmptyCollapsing(t *testing.T) {
	for _, lowest := range []bool{true, false} {
		for _, cleared := range []bool{false, true} {
			func() {
				defer func() {
					if r := recover(); r != nil {
						t.Fatalf("F1 (lowest=%v cleared=%v): merging a wider same-kind store into an empty receiver panicked: %v", lowest, cleared, r)
					}
				}()
				var a, b store.Store
				if lowest {
					a, b = store.NewCollapsingLowestDenseStore(8), store.NewCollapsingLowestDenseStore(64)
				} else {
					a, b = store.NewCollapsingHighestDenseStore(8), store.NewCollapsingHighestDenseStore(64)
				}
				if cleared {
					a.Add(3)
					a.Clear()
				}
				for i := 0; i < 40; i++ {
					b.Add(i)
				}
				a.MergeWith(b)
				if a.TotalCount() != 40 {
					t.Fatalf("F1: total %v after merge, want 40", a.TotalCount())
				}
				mn, _ := a.MinIndex()
				mx, _ := a.MaxIndex()
				if lowest && (mn != 32 || mx != 39) || !lowest && (mn != 0 || mx != 7) {
					t.Fatalf("F1 (lowest=%v): range [%d,%d]", lowest, mn, mx)
				}
			}()
		}
	}
}

func TestRegression_C07_F2_PlainDecoderReadsExactSketch(t *testing.T) {
	m, _ := mapping.NewLogarithmicMapping(0.01)
	s := ddsketch.NewDDSketchWithExactSummaryStatistics(m, store.DenseStoreConstructor)
	for i := 1; i <= 300; i++ {
		_ = s.Add(float64(i))
	}
	var b []byte
	s.Encode(&b, false)
	d, err := ddsketch.DecodeDDSketch(b, store.SparseStoreConstructor, nil)
	if err != nil {
		t.Fatalf("F2: DecodeDDSketch(exact sketch encoding) failed: %v", err)
	}
	if d.GetCount() != 300 {
		t.Fatalf("F2: decoded count %v", d.GetCount())
	}
}

func TestRegression_C08_F3_TruncatedBinBlockIsAnError(t *testing.T) {
	s, _ := ddsketch.NewDefaultDDSketch(0.01)
	for i := 1; i <= 100; i++ {
		_ = s.AddWithCount(float64(i), 2.5)
	}
	var b []byte
	s.Encode(&b, false)
	accepted := 0
	for cut := len(b) - 1; cut > len(b)-40 && cut > 18; cut-- {
		if _, err := ddsketch.DecodeDDSketch(b[:cut], store.DenseStoreConstructor, nil); err == nil {
			accepted++
		}
	}
	// at most the block boundaries may be accepted; the last 40 bytes are inside the last bin block
	if accepted > 1 {
		t.Fatalf("F3: %d truncations inside the last bin block decoded without error", accepted)
	}
}

func TestRegression_C11_F4_TotalWeightBelowOne(t *testing.T) {
	for _, p := range []store.Provider{store.DenseStoreConstructor, store.SparseStoreConstructor, store.BufferedPaginatedStoreConstructor} {
		m, _ := mapping.NewLogarithmicMapping(0.01)
		s := ddsketch.NewDDSketchFromStoreProvider(m, p)
		_ = s.AddWithCount(5.0, 0.5)
		for _, q := range []float64{0, 0.3, 0.5, 1} {
			v, err := s.GetValueAtQuantile(q)
			if err != nil || !(math.Abs(v-5) <= 0.05*1.0001) || math.Signbit(v) {
				t.Fatalf("F4: quantile %v of a sketch holding only (5.0, weight 0.5) is %v (err %v)", q, v, err)
			}
		}
	}
}

func TestRegression_C13_F5_NaNQuantileRejected(t *testing.T) {
	s, _ := ddsketch.NewDefaultDDSketch(0.01)
	_ = s.Add(1)
	if v, err := s.GetValueAtQuantile(math.NaN()); err == nil {
		t.Fatalf("F5: GetValueAtQuantile(NaN) returned %v without error", v)
	}
	if v, err := s.GetValuesAtQuantiles([]float64{0.5, math.NaN()}); err == nil {
		t.Fatalf("F5: GetValuesAtQuantiles with a NaN returned %v without error", v)
	}
}

func TestRegression_C17_F6_NoNegativeWeightAfterChangeMapping(t *testing.T) {
	m, _ := mapping.NewLogarithmicMapping(0.01)
	s := ddsketch.NewDDSketch(m, store.NewSparseStore(), store.NewSparseStore())
	for k := 1; k < 2000; k++ {
		_ = s.Add(0.37 * float64(k))
	}
	pb := m.ToProto()
	c := s.ChangeMapping(m, store.NewSparseStore(), store.NewSparseStore(), 1/pb.Gamma)
	c.GetPositiveValueStore().ForEach(func(i int, w float64) bool {
		if !(w >= 0) {
			t.Fatalf("F6: target bin %d has weight %v", i, w)
		}
		return false
	})
}

func TestRegression_C03_F7_InterpolatedLowerBoundNextToPowerOfTwo(t *testing.T) {
	lin, _ := mapping.NewLinearlyInterpolatedMappingWithGamma(1.000001386295322, 5.820766091346741e-11)
	if i := lin.Index(1); math.Abs(lin.Value(i)-1) > 2e-6 {
		t.Fatalf("F7 linear: Index(1)=%d Value=%v LowerBound=%v", i, lin.Value(i), lin.LowerBound(i))
	}
	cub, _ := mapping.NewCubicallyInterpolatedMappingWithGamma(1.000001980422477, 1.4551915228366852e-11)
	if i := cub.Index(1); math.Abs(cub.Value(i)-1) > 2e-6 {
		t.Fatalf("F7 cubic (significand rounded to 2): Index(1)=%d Value=%v LowerBound=%v", i, cub.Value(i), cub.LowerBound(i))
	}
	cub2, _ := mapping.NewCubicallyInterpolatedMappingWithGamma(1.0081264125475664, -1.4210854715202004e-14)
	v := 1.007843097206448
	if i := cub2.Index(v); math.Abs(cub2.Value(i)-v) > 0.0042*v {
		t.Fatalf("F7 cubic (significand below 1): Index(%v)=%d Value=%v LowerBound=%v", v, i, cub2.Value(i), cub2.LowerBound(i))
	}
}

func TestRegression_C05_F8_StoresAfterEveryCountUnderflowedToZero(t *testing.T) {
	for name, s := range map[string]store.Store{"dense": store.NewDenseStore(), "sparse": store.NewSparseStore(), "paginated": store.NewBufferedPaginatedStore(), "collapsing_lowest": store.NewCollapsingLowestDenseStore(4), "collapsing_highest": store.NewCollapsingHighestDenseStore(4)} {
		s.Add(0)
		s.AddWithCount(3, 2)
		_ = s.Reweight(0x1p-600)
		_ = s.Reweight(0x1p-600)
		if !s.IsEmpty() || s.TotalCount() != 0 {
			t.Fatalf("F8 %s: after every count underflowed to 0: IsEmpty=%v TotalCount=%v", name, s.IsEmpty(), s.TotalCount())
		}
		for i := 100; i < 108; i++ {
			s.Add(i)
		}
		n, lo, hi := 0, 1<<30, -(1 << 30)
		s.ForEach(func(i int, c float64) bool {
			if c != 0 {
				n++
			}
			if c == 0 {
				t.Fatalf("F8 %s: ForEach reports bin %d with weight 0", name, i)
			}
			lo, hi = min(lo, i), max(hi, i)
			return false
		})
		mn, _ := s.MinIndex()
		mx, _ := s.MaxIndex()
		if mn != lo || mx != hi {
			t.Fatalf("F8 %s: MinIndex/MaxIndex = %d/%d, non-empty bins span %d..%d", name, mn, mx, lo, hi)
		}
		if name[0] == 'c' && (n > 4 || hi-lo+1 > 4) {
			t.Fatalf("F8 %s: %d bins over %d indexes with a limit of 4", name, n, hi-lo+1)
		}
	}
	m, _ := mapping.NewLogarithmicMapping(0.01)
	sk := ddsketch.NewDDSketch(m, store.NewSparseStore(), store.NewSparseStore())
	_ = sk.Add(5)
	_ = sk.Reweight(0x1p-600)
	_ = sk.Reweight(0x1p-600)
	if sk.GetCount() == 0 != sk.IsEmpty() {
		t.Fatalf("F8: sketch with count %v reports IsEmpty=%v", sk.GetCount(), sk.IsEmpty())
	}
}

func TestRegression_C11_F9_QuantileOneOfHugeTotal(t *testing.T) {
	for _, p := range []store.Provider{store.DenseStoreConstructor, store.SparseStoreConstructor, store.BufferedPaginatedStoreConstructor} {
		m, _ := mapping.NewLogarithmicMapping(0.01)
		s := ddsketch.NewDDSketchFromStoreProvider(m, p)
		_ = s.AddWithCount(-3, 0x1p20)
		_ = s.Reweight(0x1p34)
		if v, err := s.GetValueAtQuantile(1); err != nil || !(v < -2.9 && v > -3.1) {
			t.Fatalf("F9: quantile 1 of a sketch holding only -3 (total weight 2^54) = %v, %v", v, err)
		}
		z := ddsketch.NewDDSketchFromStoreProvider(m, p)
		_ = z.AddWithCount(0, 0x1p20)
		_ = z.Reweight(0x1p34)
		if v, err := z.GetValueAtQuantile(1); err != nil || v != 0 {
			t.Fatalf("F9: quantile 1 of a sketch holding only zeros (total weight 2^54) = %v, %v", v, err)
		}
	}
}

func TestRegression_C17_F10_ChangeMappingKeepsWeightWithLargeTargetOffset(t *testing.T) {
	a := 1e-5
	g := (1 + a) / (1 - a)
	src, _ := mapping.NewLogarithmicMappingWithGamma(g, 1e-7/math.Log(g))
	tgt, _ := mapping.NewLogarithmicMappingWithGamma(3, 1.5e9)
	s := ddsketch.NewDDSketch(src, store.NewDenseStore(), store.NewDenseStore())
	_ = s.AddWithCount(1, 1000)
	c := s.ChangeMapping(tgt, store.NewDenseStore(), store.NewDenseStore(), 1)
	if got := c.GetCount(); math.Abs(got-1000) > 1e-6 {
		t.Fatalf("F10: total weight %v after ChangeMapping, 1000 before", got)
	}
}

func TestRegression_C20_F11_DatasetNaNQuantile(t *testing.T) {
	d := dataset.NewDataset()
	d.Add(1)
	d.Add(2)
	defer func() {
		if r := recover(); r != nil {
			t.Fatalf("F11: a NaN quantile made the dataset panic: %v", r)
		}
	}()
	if lo, hi, q := d.LowerQuantile(math.NaN()), d.UpperQuantile(math.NaN()), d.Quantile(math.NaN()); !math.IsNaN(lo) || !math.IsNaN(hi) || !math.IsNaN(q) {
		t.Fatalf("F11: quantiles at NaN = %v %v %v, want NaN", lo, hi, q)
	}
}

func TestRegression_C13_F12_ExactVariantValidatesZeroWeightAdds(t *testing.T) {
	s, _ := ddsketch.NewDefaultDDSketchWithExactSummaryStatistics(0.01)
	for _, v := range []float64{math.NaN(), math.Inf(1), math.Inf(-1), math.MaxFloat64, -math.MaxFloat64} {
		if err := s.AddWithCount(v, 0); err == nil {
			t.Fatalf("F12: AddWithCount(%v, 0) on the exact variant returned nil", v)
		}
	}
	if err := s.AddWithCount(5, 0); err != nil || !s.IsEmpty() {
		t.Fatalf("F12: AddWithCount(5, 0): err=%v empty=%v", err, s.IsEmpty())
	}
}

func TestRegression_C13_F13_ConstructorsNeverReturnNilNil(t *testing.T) {
	for _, a := range []float64{5e-324, 1e-300, 1e-17, 5e-17} {
		if m, err := mapping.NewLogarithmicMapping(a); (m == nil) == (err == nil) {
			t.Fatalf("F13: NewLogarithmicMapping(%v) = (%v, %v)", a, m, err)
		}
		if m, err := mapping.NewLinearlyInterpolatedMapping(a); (m == nil) == (err == nil) {
			t.Fatalf("F13: NewLinearlyInterpolatedMapping(%v) = (%v, %v)", a, m, err)
		}
		if m, err := mapping.NewCubicallyInterpolatedMapping(a); (m == nil) == (err == nil) {
			t.Fatalf("F13: NewCubicallyInterpolatedMapping(%v) = (%v, %v)", a, m, err)
		}
		if s, err := ddsketch.NewDefaultDDSketch(a); err == nil {
			_ = s.Add(1) // must not panic
		}
	}
}

func TestRegression_C13_F14_RangeCheckedFirst(t *testing.T) {
	s, err := ddsketch.NewDefaultDDSketch(1e-10)
	if err != nil {
		t.Fatal(err)
	}
	if err := s.Add(1); !errors.Is(err, ddsketch.ErrUntrackableTooHigh) {
		t.Fatalf("F14: Add(1) with accuracy 1e-10 (largest indexable value %v) returned %v", s.MaxIndexableValue(), err)
	}
	m, _ := mapping.NewLogarithmicMappingWithGamma(1.02, -1e11)
	z := ddsketch.NewDDSketch(m, store.NewSparseStore(), store.NewSparseStore())
	if err := z.Add(math.Inf(1)); !errors.Is(err, ddsketch.ErrUntrackableTooHigh) {
		t.Fatalf("F14: Add(+Inf) returned %v", err)
	}
	if err := z.Add(math.Inf(-1)); !errors.Is(err, ddsketch.ErrUntrackableTooLow) {
		t.Fatalf("F14: Add(-Inf) returned %v", err)
	}
}

func TestRegression_C03_F15_UpperBoundOfHighestBin(t *testing.T) {
	for _, a := range []float64{0.4, 0.7, 0.75, 0.9, 0.95, 0.99} {
		lin, _ := mapping.NewLinearlyInterpolatedMapping(a)
		cub, _ := mapping.NewCubicallyInterpolatedMapping(a)
		for _, m := range []mapping.IndexMapping{lin, cub} {
			v := m.MaxIndexableValue()
			i := m.Index(v)
			if lb, ub := m.LowerBound(i), m.LowerBound(i+1); !(lb <= v && v <= ub) {
				t.Fatalf("F15: %T(%v): the largest indexable value %v is in bin %d, whose bounds are %v and %v", m, a, v, i, lb, ub)
			}
		}
	}
}

func TestRegression_C10_F16_ExactSumAcrossMergeChains(t *testing.T) {
	m, _ := mapping.NewLogarithmicMapping(0.01)
	s := ddsketch.NewDDSketchWithExactSummaryStatistics(m, store.DenseStoreConstructor)
	_ = s.Add(1)
	for i := 0; i < 400; i++ {
		_ = s.Add(0x1p-54)
		fresh := ddsketch.NewDDSketchWithExactSummaryStatistics(m, store.DenseStoreConstructor)
		if err := fresh.MergeWith(s); err != nil {
			t.Fatal(err)
		}
		s = fresh
	}
	if want, got := 1+400*0x1p-54, s.GetSum(); math.Abs(got-want) > 4*0x1p-52 {
		t.Fatalf("F16: exact sum %v after 400 additions of 2^-54 to 1, each followed by a merge into a fresh sketch; expected %v (%.1f ulps off)", got, want, math.Abs(got-want)/0x1p-52)
	}
}

func TestRegression_C10_F17_ExactExtremesAfterCountUnderflowedToZero(t *testing.T) {
	for _, p := range []store.Provider{store.DenseStoreConstructor, store.SparseStoreConstructor, store.BufferedPaginatedStoreConstructor} {
		m, _ := mapping.NewLogarithmicMapping(0.01)
		s := ddsketch.NewDDSketchWithExactSummaryStatistics(m, p)
		_ = s.Add(1)
		_ = s.Add(-1000)
		_ = s.Reweight(0x1p-600)
		_ = s.Reweight(0x1p-600)
		if !s.IsEmpty() || s.GetCount() != 0 || s.GetSum() != 0 {
			t.Fatalf("F17: after every weight underflowed: empty=%v count=%v sum=%v", s.IsEmpty(), s.GetCount(), s.GetSum())
		}
		_ = s.Add(5)
		mn, _ := s.GetMinValue()
		mx, _ := s.GetMaxValue()
		if mn != 5 || mx != 5 || s.GetSum() != 5 {
			t.Fatalf("F17: a sketch whose former content underflowed to nothing, then Add(5): min=%v max=%v sum=%v", mn, mx, s.GetSum())
		}
	}
}

func TestRegression_C12_F18_DenseRangeAfterBinsUnderflowedToZero(t *testing.T) {
	news := map[string]func() store.Store{
		"dense":  func() store.Store { return store.NewDenseStore() },
		"collow": func() store.Store { return store.NewCollapsingLowestDenseStore(8) },
		"colhi":  func() store.Store { return store.NewCollapsingHighestDenseStore(8) },
	}
	for name, mk := range news {
		s := mk()
		s.AddWithCount(3, 0x1p-1074)
		s.AddWithCount(7, 0x1p-1074)
		_ = s.Reweight(0.5)
		if !s.IsEmpty() || s.TotalCount() != 0 {
			t.Fatalf("F18 %s: two bins of one subnormal unit halved: IsEmpty=%v TotalCount=%v", name, s.IsEmpty(), s.TotalCount())
		}
		s = mk()
		s.AddWithCount(map[string]int{"dense": 1000, "collow": 2, "colhi": 9}[name], 1)
		for i := 0; i < 1200; i++ {
			_ = s.Reweight(0.5)
			s.AddWithCount(5, 1)
		}
		mn, _ := s.MinIndex()
		mx, _ := s.MaxIndex()
		if mn != 5 || mx != 5 {
			t.Fatalf("F18 %s: the only bin that still holds weight is 5, index range [%d,%d]", name, mn, mx)
		}
		// a collapsed edge bin that vanished no longer attracts what is added inside the window
		s = mk()
		light, heavy, inside := 0, 100, 95
		if name == "colhi" {
			light, heavy, inside = 100, 0, 5
		}
		s.AddWithCount(light, 1)
		s.AddWithCount(heavy, 0x1p600)
		_ = s.Reweight(0x1p-600)
		_ = s.Reweight(0x1p-600)
		_ = s.Reweight(0x1p600)
		s.AddWithCount(inside, 1)
		got := map[int]float64{}
		s.ForEach(func(i int, c float64) bool { got[i] += c; return false })
		if len(got) != 2 || got[heavy] != 1 || got[inside] != 1 {
			t.Fatalf("F18 %s: expected bins %d and %d with weight 1 each, got %v", name, heavy, inside, got)
		}
	}
	m, _ := mapping.NewLogarithmicMapping(0.01)
	k := ddsketch.NewDDSketch(m, store.NewDenseStore(), store.NewDenseStore())
	_ = k.Add(1000)
	for i := 0; i < 1200; i++ {
		_ = k.Reweight(0.5)
		_ = k.Add(1)
	}
	if mx, _ := k.GetMaxValue(); !(mx < 1.02) {
		t.Fatalf("F18: only the value 1 still holds weight, GetMaxValue=%v", mx)
	}
}

func TestRegression_C13_F19_InfinitiesRefusedWithHugeBases(t *testing.T) {
	for _, g := range []float64{1e214, 1e300, 1e306, math.MaxFloat64} {
		lin, e1 := mapping.NewLinearlyInterpolatedMappingWithGamma(g, 0)
		cub, e2 := mapping.NewCubicallyInterpolatedMappingWithGamma(g, 0)
		if e1 != nil || e2 != nil {
			continue
		}
		for _, m := range []mapping.IndexMapping{lin, cub} {
			s := ddsketch.NewDDSketch(m, store.NewSparseStore(), store.NewSparseStore())
			if err := s.Add(math.Inf(1)); !errors.Is(err, ddsketch.ErrUntrackableTooHigh) {
				t.Fatalf("F19: %T(gamma=%v) (largest indexable value %v): Add(+Inf) returned %v", m, g, m.MaxIndexableValue(), err)
			}
			if err := s.Add(math.Inf(-1)); !errors.Is(err, ddsketch.ErrUntrackableTooLow) {
				t.Fatalf("F19: %T(gamma=%v): Add(-Inf) returned %v", m, g, err)
			}
			if !s.IsEmpty() {
				t.Fatalf("F19: refused additions left a count of %v", s.GetCount())
			}
		}
	}
}

func TestRegression_C11_F20_QuantileNeverFromTheEmptySide(t *testing.T) {
	m, _ := mapping.NewLogarithmicMapping(0.01)
	for i := 0; i < 300; i++ {
		s := ddsketch.NewDDSketch(m, store.NewSparseStore(), store.NewSparseStore())
		_ = s.AddWithCount(-1, 0x1p20)
		_ = s.AddWithCount(-10, 0x1p-33)
		_ = s.AddWithCount(-100, 0x1p-33)
		_ = s.Reweight(0x1p32)
		for j := 0; j < 10; j++ {
			if v, err := s.GetValueAtQuantile(1); err != nil || !(v < 0) {
				t.Fatalf("F20: quantile 1 of a sketch that only holds negative values = %v, %v", v, err)
			}
		}
	}
}

func TestRegression_C05_F21_CollapsedStateAfterTheOtherEndWasEmptied(t *testing.T) {
	for _, lowest := range []bool{true, false} {
		sign := 1
		var s, o store.Store = store.NewCollapsingLowestDenseStore(5), store.NewCollapsingLowestDenseStore(5)
		if !lowest {
			sign = -1
			s, o = store.NewCollapsingHighestDenseStore(5), store.NewCollapsingHighestDenseStore(5)
		}
		for _, b := range []struct {
			i int
			w float64
		}{{1, 1}, {2, 1}, {3, 0x1p-600}, {4, 0x1p-600}, {5, 0x1p-600}, {0, 1}} {
			s.AddWithCount(sign*b.i, b.w) // collapses to [1,5] (lowest) / [-5,-1] (highest)
		}
		_ = s.Reweight(0x1p-500) // the three bins at the non-collapsed end underflow to 0
		_ = s.Reweight(0x1p500)
		o.AddWithCount(0, 1)
		s.MergeWith(o)
		s.AddWithCount(sign*-1, 8)
		sum := 0.0
		s.ForEach(func(i int, c float64) bool { sum += c; return false })
		if sum != 12 || s.TotalCount() != 12 {
			t.Fatalf("F21 (lowest=%v): bins sum to %v, TotalCount %v, want 12 and 12", lowest, sum, s.TotalCount())
		}
		mn, _ := s.MinIndex()
		mx, _ := s.MaxIndex()
		if k := s.KeyAtRank(0); k < mn || k > mx {
			t.Fatalf("F21 (lowest=%v): KeyAtRank(0)=%d outside [%d,%d]", lowest, k, mn, mx)
		}
	}
}

func TestRegression_C10_F22_ExactStatisticsWhenEveryBinUnderflowed(t *testing.T) {
	m, _ := mapping.NewLogarithmicMapping(0.01)
	for _, p := range []store.Provider{store.DenseStoreConstructor, store.SparseStoreConstructor, store.BufferedPaginatedStoreConstructor} {
		s := ddsketch.NewDDSketchWithExactSummaryStatistics(m, p)
		_ = s.Add(3)
		_ = s.Add(7)
		_ = s.Reweight(0x1p-1000)
		_ = s.Reweight(0x1p-75) // each bin: 2^-1075, which rounds to 0; their total 2^-1074 does not
		bins := 0
		s.ForEach(func(v, w float64) bool { bins++; return false })
		if bins != 0 || !s.IsEmpty() || s.GetCount() != 0 || s.GetSum() != 0 {
			t.Fatalf("F22: %d bins, IsEmpty=%v count=%v sum=%v", bins, s.IsEmpty(), s.GetCount(), s.GetSum())
		}
		_ = s.Add(5)
		if mn, _ := s.GetMinValue(); mn != 5 {
			t.Fatalf("F22: min %v after Add(5) on a sketch whose bins all underflowed", mn)
		}
	}
}
