package props

import (
	"bytes"
	"fmt"
	"math"

	enc "github.com/DataDog/sketches-go/ddsketch/encoding"
	"github.com/DataDog/sketches-go/ddsketch/pb/sketchpb"
	"github.com/DataDog/sketches-go/ddsketch/store"
	"google.golang.org/protobuf/proto"
	"pgregory.net/rapid"
	"verifharness/gen"
	"verifharness/layout"
	"verifharness/model"
	"verifharness/obs"
)

// Store operations as data, so that the same generated operation can be
// applied to a store and its model (C04/C05), to two stores in lock-step (C15),
// or replayed with scaled weights (C16).

type sop struct {
	Kind   string // add addw addbin burst merge copy clear reweight encdec encdouble proto protodouble
	Index  int
	W      float64
	Burst  []int
	Other  *subHist
	Factor gen.Factor
	Stream bool // protomerge: through the streaming EncodeProto writer instead of ToProto
	Meth   bool // proto merges: through the receiver's own MergeWithProto method where it has one (paginated store)
}

type subHist struct {
	Kind gen.StoreKind
	Ops  []sop
}

func (o sop) String() string {
	switch o.Kind {
	case "add":
		return fmt.Sprintf("Add(%d)", o.Index)
	case "addw":
		return fmt.Sprintf("AddWithCount(%d,%v)", o.Index, o.W)
	case "addbin":
		return fmt.Sprintf("AddBin(%d,%v)", o.Index, o.W)
	case "burst":
		if len(o.Burst) > 6 {
			return fmt.Sprintf("Burst(n=%d,%v…)", len(o.Burst), o.Burst[:6])
		}
		return fmt.Sprintf("Burst(%v)", o.Burst)
	case "merge":
		return fmt.Sprintf("MergeWith(%s%v)", o.Other.Kind, o.Other.Ops)
	case "decmerge":
		return fmt.Sprintf("DecodeAndMergeWith(Encode(%s%v))", o.Other.Kind, o.Other.Ops)
	case "protomerge":
		return fmt.Sprintf("MergeWithProto(%s%v,stream=%v,method=%v)", o.Other.Kind, o.Other.Ops, o.Stream, o.Meth)
	case "reweight":
		return fmt.Sprintf("Reweight(%v)", o.Factor.F)
	case "vanish":
		return "Reweight(2^-600) x3"
	}
	return o.Kind
}

// opGen draws operations inside a cluster [base-span, base+span].
// scaled returns the operations that add the same content with every weight multiplied by f (C16's twin).
func (o sop) scaled(f float64) []sop {
	switch o.Kind {
	case "add":
		return []sop{{Kind: "addw", Index: o.Index, W: f}}
	case "addw", "addbin":
		return []sop{{Kind: o.Kind, Index: o.Index, W: o.W * f}}
	case "burst":
		out := make([]sop, len(o.Burst))
		for i, x := range o.Burst {
			out[i] = sop{Kind: "addw", Index: x, W: f}
		}
		return out
	case "merge", "decmerge", "protomerge":
		sub := &subHist{Kind: o.Other.Kind}
		for _, x := range o.Other.Ops {
			sub.Ops = append(sub.Ops, x.scaled(f)...)
		}
		return []sop{{Kind: o.Kind, Other: sub, Stream: o.Stream, Meth: o.Meth}}
	}
	return []sop{o}
}

type opGen struct {
	base, span int
	bud        *model.Budget
	kinds      []string // action kinds enabled
}

func (g *opGen) index(t *rapid.T) int { return g.base + gen.Delta(g.span).Draw(t, "delta") }

func (g *opGen) burst(t *rapid.T) []int {
	n := rapid.IntRange(1, 200).Draw(t, "burstn")
	width := rapid.SampledFrom([]int{1, 8, 32, 64, 200}).Draw(t, "burstw")
	if width > 2*g.span {
		width = 2*g.span + 1
	}
	lo := g.index(t)
	if lo+width-1 > g.base+g.span {
		lo = g.base + g.span - width + 1
	}
	out := make([]int, n)
	for i := range out {
		out[i] = lo + rapid.IntRange(0, width-1).Draw(t, "bursti")
	}
	return out
}

// drawSimple draws one of the basic mutating operations (used for sub-histories too).
func (g *opGen) drawSimple(t *rapid.T, total float64) sop {
	for {
		switch rapid.SampledFrom([]string{"add", "add", "addw", "addw", "addbin", "burst"}).Draw(t, "simple") {
		case "add":
			if g.bud.Fits(total + 1) {
				return sop{Kind: "add", Index: g.index(t)}
			}
		case "addw":
			w := gen.Weight(true).Draw(t, "w")
			if g.bud.Fits(total + w) {
				return sop{Kind: "addw", Index: g.index(t), W: w}
			}
		case "addbin":
			w := gen.Weight(true).Draw(t, "w")
			if g.bud.Fits(total + w) {
				return sop{Kind: "addbin", Index: g.index(t), W: w}
			}
		case "burst":
			b := g.burst(t)
			if g.bud.Fits(total + float64(len(b))) {
				return sop{Kind: "burst", Burst: b}
			}
		}
		// the budget is exhausted for weight-adding operations: a zero-weight add is always possible
		return sop{Kind: "addw", Index: g.index(t), W: 0}
	}
}

func (g *opGen) drawSub(t *rapid.T, argKind gen.StoreKind, maxTotal float64) *subHist {
	h := &subHist{Kind: argKind}
	n := rapid.IntRange(0, 14).Draw(t, "subn")
	total := 0.0
	sub := &opGen{base: g.base, span: g.span, bud: g.bud}
	if argKind.Name != "sparse" && g.span > 1<<14 {
		// memory: a dense or paginated argument cannot span what a sparse receiver can (DESIGN §1.1);
		// it gets a narrower sub-cluster somewhere inside the receiver's cluster
		sub.span = 1 << 12
		sub.base = g.index(t)
		if sub.base-sub.span < g.base-g.span {
			sub.base = g.base - g.span + sub.span
		}
		if sub.base+sub.span > g.base+g.span {
			sub.base = g.base + g.span - sub.span
		}
	}
	for i := 0; i < n; i++ {
		if i > 0 && rapid.IntRange(0, 11).Draw(t, "subclear") == 0 {
			h.Ops = append(h.Ops, sop{Kind: "clear"})
			total = 0
			continue
		}
		op := sub.drawSimple(t, total+maxTotal) // the receiver's total after the merge must fit too
		total += opWeight(op)
		h.Ops = append(h.Ops, op)
	}
	return h
}

func opWeight(o sop) float64 {
	switch o.Kind {
	case "add":
		return 1
	case "addw", "addbin":
		return o.W
	case "burst":
		return float64(len(o.Burst))
	}
	return 0
}

// build constructs the argument store of a merge and its unfolded model.
func (h *subHist) build() (store.Store, model.Map) {
	s := h.Kind.New()
	m := model.Map{}
	for _, op := range h.Ops {
		applySimple(op, s, m)
	}
	return s, m
}

func applySimple(op sop, s store.Store, m model.Map) {
	switch op.Kind {
	case "add":
		s.Add(op.Index)
		m.Add(op.Index, 1)
	case "addw":
		s.AddWithCount(op.Index, op.W)
		m.Add(op.Index, op.W)
	case "addbin":
		b, err := store.NewBin(op.Index, op.W)
		if err != nil {
			panic(fmt.Sprintf("NewBin(%d,%v): %v", op.Index, op.W, err))
		}
		s.AddBin(*b)
		m.Add(op.Index, op.W)
	case "burst":
		for _, i := range op.Burst {
			s.Add(i)
			m.Add(i, 1)
		}
	case "clear":
		s.Clear()
		m.Clear()
	default:
		panic("applySimple: " + op.Kind)
	}
}

func expected(k gen.StoreKind, m model.Map) model.Map {
	if k.Collapsing() {
		return m.Fold(k.N, k.Lowest())
	}
	return m
}

// mergeProto merges a protobuf store message through the package function or, if asked and the store has one,
// through its own method (BufferedPaginatedStore.MergeWithProto is public API that the package function does not use).
func mergeProto(s store.Store, pb *sketchpb.Store, meth bool) {
	if p, ok := s.(*store.BufferedPaginatedStore); ok && meth {
		p.MergeWithProto(pb)
		return
	}
	store.MergeWithProto(s, pb)
}

// encodeStore returns the binary encoding of the store's bins (positive flag type).
func encodeStore(s store.Store) []byte {
	var b []byte
	s.Encode(&b, enc.FlagTypePositiveStore)
	return b
}

// decodeInto decodes every block of b into s through the store-level API.
func decodeInto(s store.Store, b []byte) error {
	for len(b) > 0 {
		f, err := enc.DecodeFlag(&b)
		if err != nil {
			return err
		}
		if f.Type() != enc.FlagTypePositiveStore {
			return fmt.Errorf("unexpected flag type in store encoding")
		}
		if err := s.DecodeAndMergeWith(&b, f.SubFlag()); err != nil {
			return err
		}
	}
	return nil
}

// storeUnderTest is a store with its model and the bookkeeping of structural events.
type storeUnderTest struct {
	kind    gen.StoreKind
	s       store.Store
	m       model.Map // unfolded content absorbed since the last Clear
	bud     *model.Budget
	cl      *caseLog
	events  map[string]int
	indexes map[int]bool
	mutKind map[string]bool
	folds   int
	lastLay layout.Info
	ghosts  []store.Store // originals this store was copied from: they live on and keep being written to at the same indexes
}

func newSUT(kind gen.StoreKind, bud *model.Budget, cl *caseLog) *storeUnderTest {
	u := &storeUnderTest{kind: kind, s: kind.New(), m: model.Map{}, bud: bud, cl: cl, events: map[string]int{}, indexes: map[int]bool{}, mutKind: map[string]bool{}}
	u.lastLay = layout.Of(u.s)
	return u
}

func (u *storeUnderTest) exp() model.Map { return expected(u.kind, u.m) }

func (u *storeUnderTest) noteLayout(opKind string) {
	if !layout.Enabled {
		return
	}
	l := layout.Of(u.s)
	p := u.lastLay
	switch l.Kind {
	case "dense", "collapsing_lowest", "collapsing_highest":
		if p.ArrayLen > 0 && l.ArrayLen > 0 && opKind != "clear" && opKind != "copy" && !opIsReplace(opKind) {
			if l.ArrayOffset != p.ArrayOffset {
				u.events["array-shift"]++
			}
			if l.ArrayLen > p.ArrayLen {
				u.events["array-grow"]++
			}
		}
		if l.Collapsed && !p.Collapsed {
			u.events["collapsed"]++
		}
	case "buffered_paginated":
		if !opIsReplace(opKind) && opKind != "copy" {
			if l.NumPages > p.NumPages {
				u.events["page-created"]++
			}
			if p.MinPageIndex != math.MaxInt && l.MinPageIndex < p.MinPageIndex && l.PagesLen > p.PagesLen {
				u.events["pages-extended-left"]++
			}
			if l.BufferLen < p.BufferLen && opKind != "clear" && opKind != "reweight" {
				u.events["buffer-compacted"]++
			}
		}
		if l.BufferLen > 0 && l.NumPages > 0 {
			u.events["buffer-and-pages"]++
		}
	}
	u.lastLay = l
}

func opIsReplace(k string) bool { return k == "encdec" || k == "proto" }

// apply applies op to the store and the model. It returns an error string on an oracle failure local to the operation.
func (u *storeUnderTest) apply(op sop) string {
	wasFolded := u.kind.Collapsing() && u.m.Folded(u.kind.N)
	switch op.Kind {
	case "add", "addw", "addbin", "burst", "clear":
		applySimple(op, u.s, u.m)
		if op.Kind == "burst" {
			for _, i := range op.Burst {
				u.indexes[i] = true
			}
		} else if op.Kind != "clear" {
			u.indexes[op.Index] = true
		}
	case "merge":
		arg, am := op.Other.build()
		argExp := expected(op.Other.Kind, am)
		ranks := argExp.ProbeRanks(u.bud.HalfQuantum(), 6)
		before := obs.Store(arg, ranks)
		if d := obs.DiffStore(before, obs.ExpectStore(argExp, ranks)); d != "" {
			return "merge argument (built by sub-history) does not match its model: " + d
		}
		u.s.MergeWith(arg)
		u.m.Merge(argExp)
		if d := obs.DiffStore(obs.Store(arg, ranks), before); d != "" {
			return "MergeWith changed its argument: " + d
		}
		for i := range argExp {
			u.indexes[i] = true
		}
		// the argument lives on: whatever happens to it afterwards must not reach the receiver (the invariant
		// that follows compares the receiver with its model)
		if mn, mx, ok := argExp.MinMax(); ok {
			arg.AddWithCount(mn, 3)
			arg.Add(mx)
			_ = arg.Reweight(2)
		}
		arg.Clear()
		arg.Add(u.kindSafeIndex())
		u.cl.label(fmt.Sprintf("merge:%s<-%s", u.kind.Name, op.Other.Kind.Name))
		if len(am) == 0 {
			u.cl.label("merge-empty-arg")
		}
		if op.Other.Kind.Name == u.kind.Name {
			u.cl.label("merge-same-kind")
			if u.kind.Collapsing() && len(u.m) == len(argExp) && op.Other.Kind.N > u.kind.N {
				if mn, mx, ok := argExp.MinMax(); ok && mx-mn+1 > u.kind.N {
					u.cl.label("merge-wide-into-empty")
				}
			}
		}
	case "decmerge", "protomerge":
		arg, am := op.Other.build()
		argExp := expected(op.Other.Kind, am)
		if op.Kind == "decmerge" {
			if err := decodeInto(u.s, encodeStore(arg)); err != nil {
				return fmt.Sprintf("decoding the encoding of a %s store failed: %v", op.Other.Kind, err)
			}
		} else {
			pb := arg.ToProto()
			if op.Stream {
				var buf bytes.Buffer
				arg.EncodeProto(sketchpb.NewStoreBuilder(&buf))
				var st sketchpb.Store
				if err := proto.Unmarshal(buf.Bytes(), &st); err != nil {
					return fmt.Sprintf("bytes of the streaming store writer do not unmarshal: %v", err)
				}
				if !proto.Equal(&st, pb) {
					return fmt.Sprintf("streaming store writer produced %v, ToProto() is %v", &st, pb)
				}
				pb = &st
			}
			// the message is a snapshot: what happens to its source afterwards must not show through it
			if mn, mx, ok := argExp.MinMax(); ok {
				arg.AddWithCount(mn, 3)
				arg.Add(mx)
				arg.AddWithCount((mn+mx)/2, 5)
				_ = arg.Reweight(4)
			}
			mergeProto(u.s, pb, op.Meth)
			if op.Meth && u.kind.Name == "paginated" {
				u.cl.label("paginated-method-mergewithproto")
			}
		}
		u.m.Merge(argExp)
		for i := range argExp {
			u.indexes[i] = true
		}
		u.cl.label(fmt.Sprintf("%s:%s<-%s", op.Kind, u.kind.Name, op.Other.Kind.Name))
	case "copy":
		old := u.s
		u.s = old.Copy()
		// the original is then mutated and cleared: the copy must not be affected (aliasing)
		if mn, _, ok := u.m.MinMax(); ok {
			old.AddWithCount(mn, 3)
			old.Add(mn + 1)
		}
		old.Clear()
		old.Add(u.kindSafeIndex())
		// the original lives on (see haunt); it is emptied first so that it only ever holds indexes of the cluster
		// (kindSafeIndex is 0 for an empty model, which can be 2^31 away from the cluster: 16 GB in a dense store)
		old.Clear()
		u.ghosts = append(u.ghosts, old)
		if len(u.ghosts) > 2 {
			u.ghosts = u.ghosts[1:]
		}
	case "vanish":
		// every weight is scaled down until it underflows to exactly 0: the store then holds nothing a float can
		// represent and must behave as an empty one (no weight, no bins, no index range, no collapsed state)
		for i := 0; i < 3; i++ {
			if err := u.s.Reweight(0x1p-600); err != nil {
				return fmt.Sprintf("Reweight(2^-600) returned %v", err)
			}
		}
		u.m.Clear()
		u.cl.label("weights-underflowed-to-zero")
	case "reweight":
		if err := u.s.Reweight(op.Factor.F); err != nil {
			return fmt.Sprintf("Reweight(%v) returned %v", op.Factor.F, err)
		}
		u.m.Scale(op.Factor.F)
		u.bud.P += op.Factor.Shift
	case "encdec", "encdouble":
		before := u.snapshot()
		b := encodeStore(u.s)
		if d := obs.DiffStore(u.snapshot(), before); d != "" {
			return "Encode changed the store: " + d
		}
		if op.Kind == "encdec" {
			fresh := u.kind.New()
			if err := decodeInto(fresh, b); err != nil {
				return fmt.Sprintf("decoding the store's own encoding failed: %v", err)
			}
			u.s = fresh
			if u.kind.Collapsing() {
				u.m = u.exp() // the fresh store only ever saw the folded content
			}
		} else {
			e := u.exp()
			if err := decodeInto(u.s, b); err != nil {
				return fmt.Sprintf("decoding the store's own encoding into itself failed: %v", err)
			}
			u.m.Merge(e)
		}
	case "proto", "protodouble":
		before := u.snapshot()
		pb := u.s.ToProto()
		if d := obs.DiffStore(u.snapshot(), before); d != "" {
			return "ToProto changed the store: " + d
		}
		if op.Kind == "proto" {
			fresh := u.kind.New()
			mergeProto(fresh, pb, op.Meth)
			u.s = fresh
			if u.kind.Collapsing() {
				u.m = u.exp()
			}
		} else {
			e := u.exp()
			mergeProto(u.s, pb, op.Meth)
			u.m.Merge(e)
		}
	default:
		panic("apply: " + op.Kind)
	}
	u.haunt(op)
	u.mutKind[op.Kind] = true
	if u.kind.Collapsing() && u.m.Folded(u.kind.N) {
		if !wasFolded {
			u.folds++
			u.cl.label("folded")
		} else {
			u.cl.label("op-after-fold")
			if op.Kind == "add" || op.Kind == "addw" || op.Kind == "addbin" {
				e := u.exp()
				mn, mx, _ := e.MinMax()
				if u.kind.Lowest() && op.Index < mn || !u.kind.Lowest() && op.Index > mx {
					u.cl.label("add-beyond-edge-after-collapse")
				}
			}
		}
	}
	u.noteLayout(op.Kind)
	return ""
}

func (u *storeUnderTest) kindSafeIndex() int {
	if mn, _, ok := u.m.MinMax(); ok {
		return mn
	}
	return 0
}

func (u *storeUnderTest) ranks() []float64 {
	return probeRanksFor(u.exp(), u.bud)
}

// probeRanksFor: rank probes at cumulative boundaries; fewer of them when the store holds many bins (the sparse
// store sorts all its bins at every KeyAtRank call).
func probeRanksFor(e model.Map, bud *model.Budget) []float64 {
	n := 10
	if len(e) > 100 {
		n = 3
	}
	return e.ProbeRanks(bud.HalfQuantum(), n)
}

func (u *storeUnderTest) snapshot() obs.StoreObs { return obs.Store(u.s, u.ranks()) }

// invariant compares the full observation with the model's.
func (u *storeUnderTest) invariant() string {
	e := u.exp()
	ranks := probeRanksFor(e, u.bud)
	got := obs.Store(u.s, ranks)
	if d := obs.DiffStore(got, obs.ExpectStore(e, ranks)); d != "" {
		return d
	}
	if u.kind.Collapsing() {
		if len(got.Bins) > u.kind.N {
			return fmt.Sprintf("collapsing store holds %d bins > N=%d", len(got.Bins), u.kind.N)
		}
		if !got.Empty && got.Max-got.Min+1 > u.kind.N {
			return fmt.Sprintf("collapsing store spans %d indexes > N=%d", got.Max-got.Min+1, u.kind.N)
		}
		if !obs.FEq(got.Total, u.m.Total()) {
			return fmt.Sprintf("collapsing store lost weight: total %v, absorbed %v", got.Total, u.m.Total())
		}
		if layout.Enabled {
			if l := layout.Of(u.s); l.ArrayLen > u.kind.N {
				return fmt.Sprintf("collapsing store allocated %d slots > N=%d", l.ArrayLen, u.kind.N)
			}
		}
	}
	return ""
}

// partialForEach checks that returning true at the k-th callback yields exactly k callbacks.
func (u *storeUnderTest) partialForEach(k int) string {
	n := len(u.exp())
	if n == 0 {
		return ""
	}
	if k > n {
		k = n
	}
	if k < 1 {
		k = 1
	}
	calls := 0
	u.s.ForEach(func(int, float64) bool {
		calls++
		return calls >= k
	})
	if calls != k {
		return fmt.Sprintf("ForEach stopped at callback %d made %d callbacks (store has %d bins)", k, calls, n)
	}
	return ""
}

// drawOp draws any store operation that keeps the exactness budget.
func (g *opGen) drawOp(t *rapid.T, u *storeUnderTest) sop {
	total := u.m.Total()
	kind := rapid.SampledFrom(g.kinds).Draw(t, "op")
	switch kind {
	case "simple":
		return g.drawSimple(t, total)
	case "burst":
		b := g.burst(t)
		if !g.bud.Fits(total + float64(len(b))) {
			return sop{Kind: "addw", Index: g.index(t), W: 0}
		}
		return sop{Kind: "burst", Burst: b}
	case "widen":
		// values widening progressively on both sides of a centre: c, c-1, c+1, c-2, c+2, ... (in-place extension of
		// dense arrays until they are exactly full, then one step beyond)
		j := rapid.IntRange(4, 90).Draw(t, "widenj")
		c := g.index(t)
		if c-j-1 < g.base-g.span {
			c = g.base - g.span + j + 1
		}
		if c+j+1 > g.base+g.span {
			c = g.base + g.span - j - 1
		}
		if 2*j+3 > 2*g.span || !g.bud.Fits(total+float64(2*j+3)) {
			return sop{Kind: "addw", Index: g.index(t), W: 0}
		}
		out := []int{c}
		for d := 1; d <= j; d++ {
			if rapid.Bool().Draw(t, "widenlowfirst") {
				out = append(out, c-d, c+d)
			} else {
				out = append(out, c+d, c-d)
			}
		}
		switch rapid.IntRange(0, 2).Draw(t, "widenend") {
		case 0:
			out = append(out, c-j-1)
		case 1:
			out = append(out, c+j+1)
		}
		return sop{Kind: "burst", Burst: out}
	case "bigburst":
		// large scale: hundreds to thousands of unit adds over a window of up to tens of thousands of indexes
		// (arrays grown and shifted several times, many pages and compaction cycles, long encodings)
		n := rapid.IntRange(300, 3000).Draw(t, "bign")
		width := rapid.SampledFrom([]int{40, 700, 5000, 30000}).Draw(t, "bigw")
		if width > 2*g.span {
			width = 2*g.span + 1
		}
		if !g.bud.Fits(total + float64(n)) {
			return sop{Kind: "addw", Index: g.index(t), W: 0}
		}
		lo := g.index(t)
		if lo+width-1 > g.base+g.span {
			lo = g.base + g.span - width + 1
		}
		out := make([]int, n)
		asc := rapid.IntRange(0, 3).Draw(t, "bigorder")
		for i := range out {
			switch asc {
			case 0: // ascending sweep
				out[i] = lo + i*width/n
			case 1: // descending sweep
				out[i] = lo + width - 1 - i*width/n
			default:
				out[i] = lo + rapid.IntRange(0, width-1).Draw(t, "bigi")
			}
		}
		return sop{Kind: "burst", Burst: out}
	case "merge", "decmerge", "protomerge":
		ak := gen.AnyKind().Draw(t, "argkind")
		if rapid.IntRange(0, 2).Draw(t, "samekind") == 0 {
			ak = u.kind
			if ak.Collapsing() {
				ak.N = gen.BinLimit().Draw(t, "argN")
			}
		}
		return sop{Kind: kind, Other: g.drawSub(t, ak, total), Stream: rapid.Bool().Draw(t, "viastream"), Meth: rapid.Bool().Draw(t, "viamethod")}
	case "reweight":
		f := gen.ReweightFactor().Draw(t, "factor")
		if f.F != 1 && !u.bud.FitsAfterFactor(total, f.F, f.Shift) {
			f = gen.Factor{F: 1, Grow: 1}
		}
		return sop{Kind: "reweight", Factor: f}
	case "encdouble", "protodouble":
		if !u.bud.Fits(2 * total) {
			if kind == "encdouble" {
				return sop{Kind: "encdec"}
			}
			return sop{Kind: "proto", Meth: rapid.Bool().Draw(t, "viamethod")}
		}
		return sop{Kind: kind, Meth: rapid.Bool().Draw(t, "viamethod")}
	case "proto":
		return sop{Kind: kind, Meth: rapid.Bool().Draw(t, "viamethod")}
	default:
		return sop{Kind: kind}
	}
}

// partialUnderflowProbe: a copy of the store is reweighted by 2^-1074 (every weight below about one half vanishes,
// the others become a few subnormal units). Exact weights are not representable there, so nothing is compared with
// the model; what must still hold is that iteration reports no bin of weight zero (or below), no index twice and no
// index that held nothing before.
func (u *storeUnderTest) partialUnderflowProbe() string {
	before := map[int]bool{}
	u.s.ForEach(func(i int, c float64) bool { before[i] = true; return false })
	c := u.s.Copy()
	if err := c.Reweight(0x1p-1074); err != nil {
		return fmt.Sprintf("Reweight(2^-1074) returned %v", err)
	}
	seen := map[int]bool{}
	msg := ""
	c.ForEach(func(i int, w float64) bool {
		switch {
		case !(w > 0):
			msg = fmt.Sprintf("after Reweight(2^-1074) iteration reports bin %d with weight %v", i, w)
		case seen[i]:
			msg = fmt.Sprintf("after Reweight(2^-1074) iteration reports bin %d twice", i)
		case !before[i]:
			msg = fmt.Sprintf("after Reweight(2^-1074) iteration reports bin %d, which held nothing before", i)
		}
		seen[i] = true
		return msg != ""
	})
	for b := range c.Bins() {
		if msg == "" && !(b.Count() > 0) {
			msg = fmt.Sprintf("after Reweight(2^-1074) the bin stream reports bin %d with weight %v", b.Index(), b.Count())
		}
	}
	if msg != "" || len(before) == 0 {
		return msg
	}
	// what vanished is gone for every observer alike: emptiness and the index range speak of the bins that are left
	if c.IsEmpty() != (len(seen) == 0) {
		return fmt.Sprintf("after Reweight(2^-1074) IsEmpty()=%v (TotalCount %v) but iteration reports %d bins", c.IsEmpty(), c.TotalCount(), len(seen))
	}
	if len(seen) > 0 {
		l, h := math.MaxInt, math.MinInt
		for i := range seen {
			l, h = min(l, i), max(h, i)
		}
		mn, e1 := c.MinIndex()
		mx, e2 := c.MaxIndex()
		if e1 != nil || e2 != nil || mn != l || mx != h {
			return fmt.Sprintf("after Reweight(2^-1074) the bins that still hold weight span [%d,%d] but MinIndex/MaxIndex are (%d,%v) (%d,%v)", l, h, mn, e1, mx, e2)
		}
		if k := c.KeyAtRank(0); !seen[k] {
			return fmt.Sprintf("after Reweight(2^-1074) KeyAtRank(0)=%d is not a bin that still holds weight", k)
		}
		if len(seen) < len(before) {
			u.cl.label("partial-underflow-lost-bins")
		}
	}
	// weights are now whole numbers of subnormal units, whose sums are exact: three more units added below and above
	// everything the store ever held (folded into the edge bin by a collapsing store) must show up in the iteration
	sum := func() float64 {
		t := 0.0
		c.ForEach(func(i int, w float64) bool { t += w; return false })
		return t
	}
	lo, hi := math.MaxInt32, math.MinInt32
	for i := range before {
		lo, hi = min(lo, i), max(hi, i)
	}
	s0 := sum()
	if c.TotalCount() != s0 {
		// a store that keeps a running total rounded it on its own (e.g. 7.5 units to 8 while three bins of 2.5 units
		// went to 2 each) and a collapse may rebuild a bin from that total: units are then not conserved, for a
		// reason that lies in the rounding of the reweighting itself
		return msg
	}
	added := 0.0
	if lo-3 > math.MinInt32 {
		c.AddWithCount(lo-3, 3*0x1p-1074)
		added += 3 * 0x1p-1074
	}
	if hi+3 < math.MaxInt32 {
		c.AddWithCount(hi+3, 3*0x1p-1074)
		added += 3 * 0x1p-1074
	}
	if s1 := sum(); s1 != s0+added {
		return fmt.Sprintf("after Reweight(2^-1074) the bins held %v subnormal units; adding %v units outside the former range [%d,%d] leaves %v units in the bins", s0/0x1p-1074, added/0x1p-1074, lo, hi, s1/0x1p-1074)
	}
	return msg
}

// haunt: the stores this one was copied from receive weight at the very indexes it has just been given (weighted, so
// that a paginated original allocates the same pages): if a copy shares memory with its original - also memory that
// is merely kept for reuse - one of them overwrites the other and the next comparison with the model shows it.
func (u *storeUnderTest) haunt(op sop) {
	if len(u.ghosts) == 0 {
		return
	}
	var idx []int
	switch op.Kind {
	case "add", "addw", "addbin":
		idx = []int{op.Index}
	case "burst":
		idx = op.Burst
		if len(idx) > 8 {
			idx = idx[:8]
		}
	case "clear":
		for _, g := range u.ghosts {
			g.Clear()
		}
		return
	}
	for _, g := range u.ghosts {
		for _, i := range idx {
			g.AddWithCount(i, 2.5)
		}
	}
}
