// Package obs turns a store or a sketch into a comparable value made of
// everything observable through the public API. Observers sort whatever the
// API returns in unspecified order. Floats are compared bitwise (any NaN equals
// any NaN).
package obs

import (
	"fmt"
	"math"
	"sort"
	"strings"

	"github.com/DataDog/sketches-go/ddsketch"
	"github.com/DataDog/sketches-go/ddsketch/mapping"
	"github.com/DataDog/sketches-go/ddsketch/store"
	"verifharness/model"
)

func FEq(a, b float64) bool {
	if math.IsNaN(a) || math.IsNaN(b) {
		return math.IsNaN(a) && math.IsNaN(b)
	}
	return math.Float64bits(a) == math.Float64bits(b)
}

// ---------------------------------------------------------------- stores

type StoreObs struct {
	Empty          bool
	Total          float64
	Min, Max       int
	MinErr, MaxErr bool
	Bins           []model.Bin // ForEach, sorted by index
	DupIndex       bool        // ForEach reported an index twice
	NonPositive    bool        // ForEach reported a weight <= 0
	Chan           []model.Bin // Bins(), in emission order
	ChanAscending  bool
	Ranks          []float64
	Keys           []int // KeyAtRank(Ranks[i]); only when the store is not empty
}

// Store observes s. ranks are the KeyAtRank probes (skipped when s is empty: the kinds differ there and no property speaks of it).
func Store(s store.Store, ranks []float64) StoreObs {
	o := StoreObs{ChanAscending: true}
	o.Empty = s.IsEmpty()
	o.Total = s.TotalCount()
	var err error
	o.Min, err = s.MinIndex()
	o.MinErr = err != nil
	o.Max, err = s.MaxIndex()
	o.MaxErr = err != nil
	seen := map[int]bool{}
	s.ForEach(func(i int, c float64) bool {
		if seen[i] {
			o.DupIndex = true
		}
		seen[i] = true
		if !(c > 0) {
			o.NonPositive = true
		}
		o.Bins = append(o.Bins, model.Bin{Index: i, Count: c})
		return false
	})
	sort.SliceStable(o.Bins, func(i, j int) bool { return o.Bins[i].Index < o.Bins[j].Index })
	for b := range s.Bins() {
		if n := len(o.Chan); n > 0 && o.Chan[n-1].Index >= b.Index() {
			o.ChanAscending = false
		}
		o.Chan = append(o.Chan, model.Bin{Index: b.Index(), Count: b.Count()})
	}
	if !o.Empty && len(o.Bins) > 0 {
		o.Ranks = ranks
		for _, r := range ranks {
			o.Keys = append(o.Keys, s.KeyAtRank(r))
		}
	}
	return o
}

// ExpectStore is the observation the mathematical map m must produce.
func ExpectStore(m model.Map, ranks []float64) StoreObs {
	o := StoreObs{ChanAscending: true}
	bins := m.Sorted()
	o.Empty = len(bins) == 0
	for _, b := range bins {
		o.Total += b.Count
	}
	if len(bins) > 0 {
		o.Min, o.Max = bins[0].Index, bins[len(bins)-1].Index
		o.Bins = bins
	} else {
		o.MinErr, o.MaxErr = true, true
	}
	o.Chan = o.Bins
	if !o.Empty {
		o.Ranks = ranks
		for _, r := range ranks {
			k, _ := model.KeyAtRankSorted(bins, r)
			o.Keys = append(o.Keys, k)
		}
	}
	return o
}

func binsEq(a, b []model.Bin) bool {
	if len(a) != len(b) {
		return false
	}
	for i := range a {
		if a[i].Index != b[i].Index || !FEq(a[i].Count, b[i].Count) {
			return false
		}
	}
	return true
}

func binsStr(b []model.Bin) string {
	var sb strings.Builder
	sb.WriteString("[")
	for i, x := range b {
		if i > 0 {
			sb.WriteString(" ")
		}
		if i >= 80 {
			fmt.Fprintf(&sb, "…(%d bins)", len(b))
			break
		}
		fmt.Fprintf(&sb, "%d:%v", x.Index, x.Count)
	}
	sb.WriteString("]")
	return sb.String()
}

// DiffStore returns "" when the observations are identical, else a description of the first differences.
func DiffStore(got, want StoreObs) string {
	var d []string
	if got.Empty != want.Empty {
		d = append(d, fmt.Sprintf("IsEmpty: got %v want %v", got.Empty, want.Empty))
	}
	if !FEq(got.Total, want.Total) {
		d = append(d, fmt.Sprintf("TotalCount: got %v want %v", got.Total, want.Total))
	}
	if got.MinErr != want.MinErr || (!want.MinErr && got.Min != want.Min) {
		d = append(d, fmt.Sprintf("MinIndex: got (%d,err=%v) want (%d,err=%v)", got.Min, got.MinErr, want.Min, want.MinErr))
	}
	if got.MaxErr != want.MaxErr || (!want.MaxErr && got.Max != want.Max) {
		d = append(d, fmt.Sprintf("MaxIndex: got (%d,err=%v) want (%d,err=%v)", got.Max, got.MaxErr, want.Max, want.MaxErr))
	}
	if got.DupIndex || want.DupIndex {
		d = append(d, "ForEach reported the same index twice")
	}
	if got.NonPositive || want.NonPositive {
		d = append(d, "ForEach reported a non-positive weight: "+binsStr(got.Bins))
	}
	if !binsEq(got.Bins, want.Bins) {
		d = append(d, fmt.Sprintf("ForEach bins: got %s want %s", binsStr(got.Bins), binsStr(want.Bins)))
	}
	if !got.ChanAscending || !want.ChanAscending {
		d = append(d, "Bins() not in strictly ascending index order: "+binsStr(got.Chan))
	}
	if !binsEq(got.Chan, want.Chan) {
		d = append(d, fmt.Sprintf("Bins(): got %s want %s", binsStr(got.Chan), binsStr(want.Chan)))
	}
	if len(got.Keys) != len(want.Keys) {
		d = append(d, fmt.Sprintf("KeyAtRank probes: got %d answers want %d", len(got.Keys), len(want.Keys)))
	} else {
		for i := range got.Keys {
			if got.Keys[i] != want.Keys[i] {
				d = append(d, fmt.Sprintf("KeyAtRank(%v): got %d want %d", want.Ranks[i], got.Keys[i], want.Keys[i]))
				break
			}
		}
	}
	return strings.Join(d, "; ")
}

// ---------------------------------------------------------------- sketches

// SK wraps either sketch variant behind one type.
type SK struct {
	Plain *ddsketch.DDSketch
	Exact *ddsketch.DDSketchWithExactSummaryStatistics
}

func (s SK) IsExact() bool { return s.Exact != nil }

func (s SK) Inner() *ddsketch.DDSketch {
	if s.Exact != nil {
		return s.Exact.DDSketch
	}
	return s.Plain
}
func (s SK) Mapping() mapping.IndexMapping { return s.Inner().IndexMapping }

func (s SK) IsEmpty() bool {
	if s.Exact != nil {
		return s.Exact.IsEmpty()
	}
	return s.Plain.IsEmpty()
}
func (s SK) GetCount() float64 {
	if s.Exact != nil {
		return s.Exact.GetCount()
	}
	return s.Plain.GetCount()
}
func (s SK) GetZeroCount() float64 {
	if s.Exact != nil {
		return s.Exact.GetZeroCount()
	}
	return s.Plain.GetZeroCount()
}
func (s SK) GetSum() float64 {
	if s.Exact != nil {
		return s.Exact.GetSum()
	}
	return s.Plain.GetSum()
}
func (s SK) Pos() store.Store {
	if s.Exact != nil {
		return s.Exact.GetPositiveValueStore()
	}
	return s.Plain.GetPositiveValueStore()
}
func (s SK) Neg() store.Store {
	if s.Exact != nil {
		return s.Exact.GetNegativeValueStore()
	}
	return s.Plain.GetNegativeValueStore()
}
func (s SK) GetMinValue() (float64, error) {
	if s.Exact != nil {
		return s.Exact.GetMinValue()
	}
	return s.Plain.GetMinValue()
}
func (s SK) GetMaxValue() (float64, error) {
	if s.Exact != nil {
		return s.Exact.GetMaxValue()
	}
	return s.Plain.GetMaxValue()
}
func (s SK) GetValueAtQuantile(q float64) (float64, error) {
	if s.Exact != nil {
		return s.Exact.GetValueAtQuantile(q)
	}
	return s.Plain.GetValueAtQuantile(q)
}
func (s SK) GetValuesAtQuantiles(q []float64) ([]float64, error) {
	if s.Exact != nil {
		return s.Exact.GetValuesAtQuantiles(q)
	}
	return s.Plain.GetValuesAtQuantiles(q)
}
func (s SK) ForEach(f func(v, c float64) bool) {
	if s.Exact != nil {
		s.Exact.ForEach(f)
	} else {
		s.Plain.ForEach(f)
	}
}
func (s SK) Add(v float64) error {
	if s.Exact != nil {
		return s.Exact.Add(v)
	}
	return s.Plain.Add(v)
}
func (s SK) AddWithCount(v, c float64) error {
	if s.Exact != nil {
		return s.Exact.AddWithCount(v, c)
	}
	return s.Plain.AddWithCount(v, c)
}
func (s SK) Reweight(w float64) error {
	if s.Exact != nil {
		return s.Exact.Reweight(w)
	}
	return s.Plain.Reweight(w)
}
func (s SK) Clear() {
	if s.Exact != nil {
		s.Exact.Clear()
	} else {
		s.Plain.Clear()
	}
}
func (s SK) Encode(b *[]byte, omit bool) {
	if s.Exact != nil {
		s.Exact.Encode(b, omit)
	} else {
		s.Plain.Encode(b, omit)
	}
}
func (s SK) DecodeAndMergeWith(b []byte) error {
	if s.Exact != nil {
		return s.Exact.DecodeAndMergeWith(b)
	}
	return s.Plain.DecodeAndMergeWith(b)
}
func (s SK) Copy() SK {
	if s.Exact != nil {
		return SK{Exact: s.Exact.Copy()}
	}
	return SK{Plain: s.Plain.Copy()}
}

// MergeWith merges o (of the same variant) into s.
func (s SK) MergeWith(o SK) error {
	if s.Exact != nil {
		return s.Exact.MergeWith(o.Exact)
	}
	return s.Plain.MergeWith(o.Plain)
}
func (s SK) ChangeMapping(m mapping.IndexMapping, p store.Provider, scale float64) SK {
	if s.Exact != nil {
		return SK{Exact: s.Exact.ChangeMapping(m, p, scale)}
	}
	return SK{Plain: s.Plain.ChangeMapping(m, p(), p(), scale)}
}

// NewSK builds a sketch of either variant; pos and neg store kinds may differ for the plain variant.
func NewSK(exact bool, m mapping.IndexMapping, pos, neg func() store.Store) SK {
	if exact {
		// the exact variant is built from a provider: both stores are of the kind of pos
		return SK{Exact: ddsketch.NewDDSketchWithExactSummaryStatistics(m, pos)}
	}
	return SK{Plain: ddsketch.NewDDSketch(m, pos(), neg())}
}

type VW struct{ V, W float64 }

type SketchObs struct {
	Exact              bool
	Empty              bool
	Count, Zero, Sum   float64
	Min, Max           float64
	MinErr, MaxErr     bool
	Entries            []VW // sketch ForEach sorted by (value, weight)
	EntryNonPositive   bool
	Qs                 []float64
	Quantiles          []float64
	QuantileErr        []bool
	Pos, Neg           StoreObs
	MapKind            string
	MapGamma, MapOffst float64
}

var DefaultQs = []float64{0, 1e-9, 0.001, 0.01, 0.1, 0.25, 1.0 / 3, 0.5, 0.75, 0.9, 0.99, 0.999, 1 - 1e-9, 1}

// Sketch observes s. ranksPos/ranksNeg are KeyAtRank probes for the two stores.
func Sketch(s SK, qs []float64, ranksPos, ranksNeg []float64) SketchObs {
	o := SketchObs{Exact: s.IsExact()}
	o.Empty = s.IsEmpty()
	o.Count = s.GetCount()
	o.Zero = s.GetZeroCount()
	o.Sum = s.GetSum()
	var err error
	o.Min, err = s.GetMinValue()
	o.MinErr = err != nil
	o.Max, err = s.GetMaxValue()
	o.MaxErr = err != nil
	s.ForEach(func(v, c float64) bool {
		if !(c > 0) {
			o.EntryNonPositive = true
		}
		o.Entries = append(o.Entries, VW{v, c})
		return false
	})
	sort.SliceStable(o.Entries, func(i, j int) bool {
		if o.Entries[i].V != o.Entries[j].V {
			return o.Entries[i].V < o.Entries[j].V
		}
		return o.Entries[i].W < o.Entries[j].W
	})
	o.Qs = qs
	for _, q := range qs {
		v, err := s.GetValueAtQuantile(q)
		o.Quantiles = append(o.Quantiles, v)
		o.QuantileErr = append(o.QuantileErr, err != nil)
	}
	o.Pos = Store(s.Pos(), ranksPos)
	o.Neg = Store(s.Neg(), ranksNeg)
	if m := s.Mapping(); m != nil {
		p := m.ToProto()
		o.MapKind = p.Interpolation.String()
		o.MapGamma, o.MapOffst = p.Gamma, p.IndexOffset
	}
	return o
}

type DiffOpts struct {
	IgnoreSum bool // plain sketches over a sparse store sum a Go map in random order: last bits differ between calls
}

// DiffSketch returns "" when identical.
func DiffSketch(got, want SketchObs, opt DiffOpts) string {
	var d []string
	add := func(f string, a ...any) { d = append(d, fmt.Sprintf(f, a...)) }
	if got.Empty != want.Empty {
		add("IsEmpty: got %v want %v", got.Empty, want.Empty)
	}
	if !FEq(got.Count, want.Count) {
		add("GetCount: got %v want %v", got.Count, want.Count)
	}
	if !FEq(got.Zero, want.Zero) {
		add("GetZeroCount: got %v want %v", got.Zero, want.Zero)
	}
	if !opt.IgnoreSum && !FEq(got.Sum, want.Sum) {
		add("GetSum: got %v want %v", got.Sum, want.Sum)
	}
	if got.MinErr != want.MinErr || (!want.MinErr && !FEq(got.Min, want.Min)) {
		add("GetMinValue: got (%v,err=%v) want (%v,err=%v)", got.Min, got.MinErr, want.Min, want.MinErr)
	}
	if got.MaxErr != want.MaxErr || (!want.MaxErr && !FEq(got.Max, want.Max)) {
		add("GetMaxValue: got (%v,err=%v) want (%v,err=%v)", got.Max, got.MaxErr, want.Max, want.MaxErr)
	}
	if got.EntryNonPositive || want.EntryNonPositive {
		add("sketch ForEach reported a non-positive weight")
	}
	if len(got.Entries) != len(want.Entries) {
		add("sketch ForEach: got %d entries want %d (%v vs %v)", len(got.Entries), len(want.Entries), trimVW(got.Entries), trimVW(want.Entries))
	} else {
		for i := range got.Entries {
			if !FEq(got.Entries[i].V, want.Entries[i].V) || !FEq(got.Entries[i].W, want.Entries[i].W) {
				add("sketch ForEach entry %d: got %v want %v", i, got.Entries[i], want.Entries[i])
				break
			}
		}
	}
	if len(got.Quantiles) != len(want.Quantiles) {
		add("quantile probes differ in number")
	} else {
		for i := range got.Quantiles {
			if got.QuantileErr[i] != want.QuantileErr[i] || (!want.QuantileErr[i] && !FEq(got.Quantiles[i], want.Quantiles[i])) {
				add("GetValueAtQuantile(%v): got (%v,err=%v) want (%v,err=%v)", want.Qs[i], got.Quantiles[i], got.QuantileErr[i], want.Quantiles[i], want.QuantileErr[i])
				break
			}
		}
	}
	if x := DiffStore(got.Pos, want.Pos); x != "" {
		add("positive store: %s", x)
	}
	if x := DiffStore(got.Neg, want.Neg); x != "" {
		add("negative store: %s", x)
	}
	if got.MapKind != want.MapKind || !FEq(got.MapGamma, want.MapGamma) || !FEq(got.MapOffst, want.MapOffst) {
		add("mapping: got %s(%v,%v) want %s(%v,%v)", got.MapKind, got.MapGamma, got.MapOffst, want.MapKind, want.MapGamma, want.MapOffst)
	}
	return strings.Join(d, "; ")
}

func trimVW(e []VW) []VW {
	if len(e) > 40 {
		return e[:40]
	}
	return e
}
