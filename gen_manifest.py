#!/usr/bin/env python3
"""Regenerates MANIFEST.json from checks_config.py and manifest_texts.py (run after editing either)."""
import json, os, subprocess
from checks_config import CHECKS
from manifest_texts import TEXTS, NOT_APPLICABLE

ROOT = os.path.dirname(os.path.abspath(__file__))
ids = [json.loads(l)['id'] for l in open(os.path.join(ROOT, 'properties.jsonl'))]
hook_commits = subprocess.run(['git', '-C', '/repo', 'log', '--format=%H', '--grep', '^verif hook'], capture_output=True, text=True).stdout.split()
m = {
    "version": 1,
    "setup_cmd": "cd /verif/harness && GOFLAGS=-mod=mod GOPROXY=off GOSUMDB=off GOTOOLCHAIN=local go test -c -vet=off -tags verif -o /dev/null ./props",
    "hooks": {
        "guard": "verif",
        "enable": "go build tag: the driver compiles harness/props with `-tags verif` against /repo (replace directive); the only guarded file is ddsketch/store/verif_layout.go (read-only layout introspection). If that file no longer compiles the driver falls back to building without the tag and records layout_hook=false.",
        "baseline_off_cmd": "cd /repo && GOFLAGS=-mod=mod GOPROXY=off GOSUMDB=off go test -vet=off -count=1 -timeout 25m ./...",
        "source_commits": hook_commits,
        "add_only": True,
    },
    "engines": [{
        "name": "rapid-harness",
        "path": "harness/",
        "serves_properties": sorted(CHECKS.keys()),
        "kind_free_text": "Go module of property-based tests (pgregory.net/rapid v1.3.0 generators and state machines, native go fuzz targets) with exact reference models (model/), an independent wire-format implementation written from the format documentation (refdec/), observers (obs/) and a per-run statistics collector (stats/); driven by ./check (seeded, sharded over processes)",
    }],
    "checks": [],
    "notes": "All checks are `./check <ID> --tier quick|thorough`; VERIF_SEED selects the rapid seeds. Exit 2 = inconclusive (build failure, timeout, generator regression) and is never reported as a violation. Known findings: known_findings.json (all six confirmed defects were repaired with fix: commits in /repo, so it only holds fixed: entries).",
    "not_applicable": [],
}
for pid in ids:
    if pid in CHECKS and pid in TEXTS:
        t = TEXTS[pid]
        m["checks"].append({
            "property_id": pid,
            "quick_cmd": "./check %s --tier quick" % pid,
            "thorough_cmd": "./check %s --tier thorough" % pid,
            "evidence_file": "/verif/evidence/%s.json" % pid,
            "replay_cmd_template": "./check %s --replay {path}" % pid,
            "engine": "rapid-harness",
            "level_claimed": {"category": CHECKS[pid]['level'], "text": t['text'], "design_ref": t['design_ref']},
            "level_note": t['note'],
            "technique": t['technique'],
        })
    else:
        m["not_applicable"].append({"property_id": pid, "reason": NOT_APPLICABLE.get(pid, "check not built yet in this revision of /verif (work in progress); the property is decidable by this technique, see DESIGN.md section 2")})
json.dump(m, open(os.path.join(ROOT, 'MANIFEST.json'), 'w'), indent=1)
print('checks:', [c['property_id'] for c in m['checks']], 'n/a:', [n['property_id'] for n in m['not_applicable']])
