#!/bin/bash
# usage: run_all.sh [tier] [seed ...]   - runs every check of MANIFEST.json; prints one line per (seed, property)
TIER="${1:-quick}"; shift
SEEDS="${@:-1}"
cd "$(dirname "$(readlink -f "$0")")"
IDS=$(python3 -c "import json;print(' '.join(c['property_id'] for c in json.load(open('MANIFEST.json'))['checks']))")
rc=0
for s in $SEEDS; do
  for id in $IDS; do
    out=$(VERIF_SEED=$s ./check $id --tier $TIER 2>&1); r=$?
    echo "seed=$s $id rc=$r $(echo "$out" | tail -1)"
    if [ $r -ne 0 ]; then rc=1; echo "$out" | tail -30; fi
  done
done
exit $rc
