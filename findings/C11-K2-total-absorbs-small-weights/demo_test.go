package demo_test

import (
	"math"
	"testing"

	"github.com/DataDog/sketches-go/ddsketch"
	"github.com/DataDog/sketches-go/ddsketch/mapping"
	"github.com/DataDog/sketches-go/ddsketch/store"
)

// Property C11: every quantile answer is within alpha of an absorbed value whose
// cumulative-weight interval lies within one unit of weight of q*(W-1).
//
// The dense stores keep a running total (DenseStore.count) next to their bins.
// The running total is rounded at each addition, independently of the bins: a
// weight that is below half an ulp of the running total is kept by its bin and
// lost by the total. The rank q*(count-1) and the branch selection of
// GetValueAtQuantile are computed from that total, so that the weight that
// sits above (or, for the negative store, below) the rounded total can never be
// reached, however many units of weight it amounts to.

func within(a, b, alpha float64) bool {
	return math.Abs(a-b) <= alpha*math.Abs(b)*(1+1e-9)
}

// 18 public calls. Exact content: value 1 with weight 2^51, value 100 with
// weight 16, W = 2^51+16 (exactly representable, far below 2^53).
// q=1: rank = W-1 = 2^51+15; the interval of the value 1 is [0, 2^51], which is
// 15 units of weight away from that rank; the only admissible answer is 100.
func TestDenseRunningTotalLosesWholeUnitsOfWeight(t *testing.T) {
	const alpha = 0.01
	m, err := mapping.NewLogarithmicMapping(alpha)
	if err != nil {
		t.Fatal(err)
	}
	providers := map[string]store.Provider{
		"dense":             store.DenseStoreConstructor,
		"collapsingLowest":  func() store.Store { return store.NewCollapsingLowestDenseStore(2048) },
		"collapsingHighest": func() store.Store { return store.NewCollapsingHighestDenseStore(2048) },
	}
	for name, p := range providers {
		for _, sign := range []float64{1, -1} {
			s := ddsketch.NewDDSketchFromStoreProvider(m, p)
			if err := s.AddWithCount(sign*1, math.Ldexp(1, 20)); err != nil {
				t.Fatal(err)
			}
			for i := 0; i < 64; i++ {
				// dyadic weight in (0, 2^20]
				if err := s.AddWithCount(sign*100, math.Ldexp(1, -33)); err != nil {
					t.Fatal(err)
				}
			}
			// dyadic factor: every multiplication is exact
			if err := s.Reweight(math.Ldexp(1, 31)); err != nil {
				t.Fatal(err)
			}

			// The sketch does hold the 16 units of weight of the value 100.
			held := 0.0
			s.ForEach(func(v, c float64) bool {
				if within(v, sign*100, alpha) {
					held += c
				}
				return false
			})
			if held != 16 {
				t.Fatalf("%s: the bin of %v holds %v, expected 16", name, sign*100, held)
			}

			q := 1.0
			if sign < 0 {
				q = 0 // the weight is at the low end: rank 0 is inside the interval [0,16] of -100
			}
			got, err := s.GetValueAtQuantile(q)
			if err != nil {
				t.Fatal(err)
			}
			if !within(got, sign*100, alpha) {
				mn, _ := s.GetMinValue()
				mx, _ := s.GetMaxValue()
				t.Errorf("%s: W = 2^51+16, 16 units of weight at %v, but GetValueAtQuantile(%v) = %v (min %v, max %v, GetCount()-2^51 = %v): "+
					"the answer's cumulative-weight interval is 15 units of weight away from q*(W-1)",
					name, sign*100, q, got, mn, mx, s.GetCount()-math.Ldexp(1, 51))
			}
		}
	}
}

// Same defect with weighted adds only (no reweighting): 2^16 adds of weight 2^20
// at the value 1, then 2^21 adds of weight 2^-17 at the value 100.
// W = 2^36+16; q=1 must return (about) 100.
func TestDenseRunningTotalAddsOnly(t *testing.T) {
	const alpha = 0.01
	s, err := ddsketch.LogUnboundedDenseDDSketch(alpha)
	if err != nil {
		t.Fatal(err)
	}
	for i := 0; i < 1<<16; i++ {
		s.AddWithCount(1, math.Ldexp(1, 20))
	}
	for i := 0; i < 1<<21; i++ {
		s.AddWithCount(100, math.Ldexp(1, -17))
	}
	got, _ := s.GetValueAtQuantile(1)
	mx, _ := s.GetMaxValue()
	if !within(got, 100, alpha) {
		t.Errorf("W = 2^36+16, 16 units of weight at 100 (max = %v), but GetValueAtQuantile(1) = %v", mx, got)
	}
}

// The stores that do not cache their total recompute it by adding the bins in
// index order, and KeyAtRank accumulates in the same order: small bins above a
// large one are absorbed one by one. 64 distinct values above 100, each with
// 1/4 unit of weight after reweighting (16 units in all), W = 2^51+16.
func TestBufferedPaginatedAbsorbsSmallBins(t *testing.T) {
	const alpha = 0.01
	m, _ := mapping.NewLogarithmicMapping(alpha)
	s := ddsketch.NewDDSketchFromStoreProvider(m, store.BufferedPaginatedStoreConstructor)
	s.AddWithCount(1, math.Ldexp(1, 20))
	for i := 0; i < 64; i++ {
		s.AddWithCount(100*math.Pow(1.03, float64(i)), math.Ldexp(1, -33))
	}
	s.Reweight(math.Ldexp(1, 31))
	got, _ := s.GetValueAtQuantile(1)
	mx, _ := s.GetMaxValue()
	if got < 100*(1-alpha) {
		t.Errorf("W = 2^51+16, 16 units of weight between 100 and %v, but GetValueAtQuantile(1) = %v", mx, got)
	}
}
