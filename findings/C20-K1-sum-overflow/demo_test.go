package demo_test

import (
	"math"
	"testing"

	"github.com/DataDog/sketches-go/dataset"
)

// C20: "a sum accurate to rounding ... independently of insertion order and of
// interleaving queries with additions", over all finite value sequences.
//
// {1e308, 1e308, -1e308} are finite and their exact sum is 1e308 (representable).
// Dataset.Sum() returns +Inf in arrival order, and a different value (1e308)
// once any quantile/Min/Max query has sorted Values in place.
func TestSumOverflowsOnFiniteSumAndChangesAfterQuery(t *testing.T) {
	d := dataset.NewDataset()
	for _, v := range []float64{1e308, 1e308, -1e308} {
		d.Add(v)
	}
	before := d.Sum()
	_ = d.Min() // a read-only query
	after := d.Sum()
	if before != 1e308 {
		t.Errorf("Sum() = %g before any query, exact sum is 1e308", before)
	}
	if after != before {
		t.Errorf("Sum() changed from %g to %g because of an interleaved Min() query", before, after)
	}

	// same multiset, other arrival order: the result is right
	e := dataset.NewDataset()
	for _, v := range []float64{-1e308, 1e308, 1e308} {
		e.Add(v)
	}
	if e.Sum() != before {
		t.Errorf("Sum() depends on insertion order beyond rounding: %g vs %g", before, e.Sum())
	}
}

// Finite values, finite exact sum (about 1.8e292), Sum() returns NaN.
func TestSumNaNOnFiniteValues(t *testing.T) {
	x := math.Ldexp(0.9, 970) // 0.45 ulp(MaxFloat64)
	d := dataset.NewDataset()
	for _, v := range []float64{math.MaxFloat64, x, x, x, -math.MaxFloat64} {
		d.Add(v)
	}
	if s := d.Sum(); math.IsNaN(s) || math.IsInf(s, 0) {
		t.Errorf("Sum() = %g for finite values whose exact sum is %g", s, 3*x)
	}
}
